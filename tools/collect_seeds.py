#!/usr/bin/env python3
"""Copy verified seeded defects from /tmp/seed_out + /tmp/seed_results into /verif/seeded/<PROP>-<mK>/ with meta.json."""
import json, os, shutil, sys, glob
OUT, RES, DST = "/tmp/seed_out", "/tmp/seed_results", "/verif/seeded"
for rf in sorted(glob.glob(RES + "/*.json")):
    try:
        r = json.load(open(rf))
    except Exception:
        continue
    prop, m = r["prop"], os.path.basename(r["dir"])
    if "/seed4_out/" in r["dir"]:
        m = "m%d" % (int(m[1:]) + 6)
    if "/seed3_out/" in r["dir"]:
        m = "m%d" % (int(m[1:]) + 4)
    if "/seed2_out/" in r["dir"]:            # second round: m1, m2 -> m3, m4
        m = "m%d" % (int(m[1:]) + 2)
    src = r["dir"]
    d = os.path.join(DST, "%s-%s" % (prop, m))
    os.makedirs(d, exist_ok=True)
    for f in ("patch.diff", "demo.cc", "demo.sh", "notes.txt"):
        if os.path.exists(os.path.join(src, f)):
            shutil.copy(os.path.join(src, f), d)
    notes = open(os.path.join(src, "notes.txt")).read() if os.path.exists(os.path.join(src, "notes.txt")) else ""
    caught = [c["check"] for c in r.get("checks", []) if c["rc"] == 1 and c["violations"] > 0]
    meta = {
        "property": prop,
        "origin": "written by an independent sub-agent given only the property text and a scratch worktree (no access to /verif)" + ("; second round: told which mechanisms had been tried before" if "/seed2_out/" in r["dir"] else ""),
        "needs_to_manifest": notes.strip().split("\n\n")[0][:900],
        "verified": {
            "existing_suite_passes_with_patch": bool(r.get("suite_passes")),
            "demo_exit_on_original_tree": r.get("demo_on_original"),
            "demo_exit_on_patched_tree": r.get("demo_on_patched"),
            "how": "tools/seedcheck.sh: scratch git worktree of /repo HEAD + patch.diff; tools/baseline.sh (cmake+ninja+ctest, 991 tests); "
                   "g++ -std=c++14 demo.cc against both trees; AU_REPO=<worktree> ./check <ID> --tier quick (equivalent to applying the "
                   "patch to /repo and reverting; /repo itself is never modified)",
        },
        "checks_run": [{"check": c["check"], "exit": c["rc"], "violation_lines": c["violations"], "first_violation": c["first"].strip()[:400],
                        "error": c["error"][:200]} for c in r.get("checks", [])],
        "caught_by": caught,
    }
    json.dump(meta, open(os.path.join(d, "meta.json"), "w"), indent=1)
    print(prop, m, "caught by", caught or "NOTHING", "| suite", r.get("suite_passes"), "demo", r.get("demo_on_original"), r.get("demo_on_patched"))
