#!/bin/sh
# Build and run aurora-opensource/au's own test suite (guard AU_VERIF_TRACE undefined) from the
# current working tree of /repo, in a scratch copy that is removed afterwards.
# usage: baseline.sh [srcdir]     exit status = ctest's
set -e
SRC=${1:-/repo}
W=$(mktemp -d /tmp/au_baseline_XXXXXX)
trap 'rm -rf "$W"' EXIT
rsync -a --exclude _build --exclude .git "$SRC"/ "$W/src"/
# reuse the pre-fetched googletest of the pinned build tree (offline)
GT=$(ls -d /repo/_build/_deps/googletest-src 2>/dev/null || true)
cmake -G Ninja -S "$W/src" -B "$W/b" ${GT:+-DFETCHCONTENT_SOURCE_DIR_GOOGLETEST=$GT} -DFETCHCONTENT_FULLY_DISCONNECTED=ON >"$W/cfg.log" 2>&1 || { cat "$W/cfg.log"; exit 3; }
cmake --build "$W/b" -j16 >"$W/build.log" 2>&1 || { tail -50 "$W/build.log"; exit 4; }
ctest --test-dir "$W/b" -j8 --timeout 900 2>&1 | tail -5
