#!/usr/bin/env python3
"""Independent generator of adversarial 64-bit inputs for C12 (run with the tooling venv's python: sympy).
Prints one line per number:  n f1 f2 ...   (prime factors with multiplicity; a prime is followed by itself).
Nothing here is trusted for soundness: TLC re-multiplies the factors and re-checks their primality (NTBig.tla)."""
import random
import sys

from sympy import factorint, isprime, nextprime, prevprime

seed = int(sys.argv[1]) if len(sys.argv) > 1 else 1
big = len(sys.argv) > 2 and sys.argv[2] == "thorough"
rnd = random.Random(seed)
out = {}


def add(n, fs=None):
    if n < 2 or n >= 2 ** 64 or n in out:
        return
    if fs is None:
        fs = [p for p, e in sorted(factorint(n).items()) for _ in range(e)]
    out[n] = fs


for k in (8, 16, 31, 32, 33, 48, 53, 62, 63, 64):
    p = prevprime(2 ** k)
    q = nextprime(2 ** k) if k < 64 else prevprime(p)
    for x in (p, q, prevprime(p)):
        add(x, [x])
    for d in (-3, -1, 1, 3):
        if 2 ** k + d < 2 ** 64:
            add(2 ** k + d)
for base in (2 ** 16, 2 ** 31, 2 ** 32 - 300):
    ps = [nextprime(base + rnd.randint(0, 5000)) for _ in range(6 if big else 3)] + [prevprime(base)]
    for p in ps:
        add(p * p, [p, p])
        for q in ps:
            if p < q:
                add(p * q, [p, q])
for p in (nextprime(2 ** 21), nextprime(2 ** 20 + 12345)):
    add(p ** 3, [p, p, p])
    add(p * p * nextprime(p), [p, p, nextprime(p)])
k = 1
found = 0
while found < (25 if big else 10):
    a, b, c = 6 * k + 1, 12 * k + 1, 18 * k + 1
    if isprime(a) and isprime(b) and isprime(c) and a * b * c < 2 ** 64:
        add(a * b * c, [a, b, c])
        found += 1
    k += 1
for n in (2047, 3277, 4033, 4681, 8321, 15841, 29341, 42799, 49141, 52633, 65281, 74665, 80581, 85489, 88357, 90751, 3215031751, 25326001, 3474749660383,
          341550071728321, 2152302898747, 3825123056546413051, 5459, 5777, 10877, 16109, 18971, 22499, 24569, 25199, 40309, 58519, 75077, 97439,
          561, 1105, 1729, 2465, 2821, 6601, 8911, 18446744073709551557, 18446744073709551615, 9223372036854775837, 4294967291 * 4294967279, 1000000007 * 998244353):
    add(n)
for _ in range(400 if big else 80):
    # numbers with a known factorisation: products of 2-4 random primes
    parts = []
    n = 1
    for _j in range(rnd.choice((1, 2, 2, 3, 4))):
        p = nextprime(rnd.getrandbits(rnd.choice((8, 14, 20, 28, 31, 32))))
        if n * p < 2 ** 64:
            n *= p
            parts.append(p)
    add(n, sorted(parts))
for _ in range(100 if big else 30):
    p = nextprime(rnd.getrandbits(rnd.choice((40, 50, 60, 63))) | (1 << 39))
    add(p, [p])
# three or more prime factors all above the trial-division range (541): Pollard's rho may return a composite divisor that has to be split again
small = [p for p in range(547, 700) if isprime(p)]
triples = [(a, b, c) for i, a in enumerate(small) for j, b in enumerate(small) if j > i for c in small[j + 1:]]
rnd.shuffle(triples)
for a, b, c in triples[: (len(triples) if big else 700)]:
    add(a * b * c, [a, b, c])
for _ in range(600 if big else 120):
    k = rnd.choice((3, 3, 4, 5))
    ps, n = [], 1
    for _j in range(k):
        p = nextprime(rnd.randint(542, rnd.choice((1000, 5000, 70000, 2 ** 21))))
        if n * p < 2 ** 64:
            n *= p
            ps.append(p)
    add(n, sorted(ps))
for n, fs in sorted(out.items()):
    print(n, *fs)
