#!/usr/bin/env python3
"""Regenerates /verif/MANIFEST.json from the table below (kept next to the code so that the manifest
is valid at every commit)."""
import json
import os

HERE = os.path.dirname(os.path.dirname(os.path.abspath(__file__)))
ALL = ["C%02d" % i for i in range(1, 21)]

CHECKS = {
    "C03": dict(
        text="TLC explores every state of the scaled conversion pipeline (ApplyMagnitude.tla: all values of 5-8 bit reps x all coprime "
             "factors, one action per pipeline stage) and proves 'not lossy => exact value, no UB, no unsigned wrap at any stage'; the same "
             "predicate over BigInt (ConvBig.tla) then judges records of the real library: 8/16-bit reps exhaustively and 32/64-bit "
             "boundary neighbourhoods + seeded random (all 2^32 values for four factors per 32-bit rep in the thorough tier) for a TLC-generated factor grid, under a "
             "clang build whose UBSan handlers raise a per-call flag.",
        note="Trusts TLC, the pure-TLA+ BigInt module, clang's UBSan instrumentation as the UB/wrap event source, LP64.  The factor "
             "grid is finite; 32/64-bit value spaces are sampled in the quick tier.",
        technique="TLA+ pipeline model checked by TLC + contract sweep of the real library adjudicated by TLC (BigInt)", ref="6/C03"),
    "C04": dict(
        text="TLC proves on the scaled machine that the library's threshold formulas (implementation-shaped model) coincide with the exact "
             "rational predicates for every value and factor, plus the monotonicity lemma that makes an interval contract complete; TLC then "
             "emits per-(rep,N,D) contracts with BigInt and re-derives every disagreement, boundary point and sampled agreement of a sweep of "
             "the real checkers (both directions of the iff).",
        note="Same trusted base as C03.  Floating-point overflow clause: see evidence layers (checked with exact rationals and a tolerance band).",
        technique="TLA+ model checked by TLC (Impl = Exact invariants) + TLC-emitted contracts swept against the real checkers", ref="6/C04"),
    "C05": dict(
        text="TLC explores every value of every ordered pair of scaled reps (6 integer reps, 2 minifloats) through the modelled three-stage "
             "cast pipeline (CastToCommon, ScaleInCommon, CastToTarget as actions) and proves: cleared => every cast defined and exact, "
             "uncastable => lossy, integral overflow only if real.  For the real library TLC emits all 121 rep pairs x factor grid; integral "
             "pairs are swept against TLC-computed three-stage contracts (8/16-bit sources exhaustively), floating-path pairs are logged "
             "around every target limit (nextafter chains), 2^digits, specials and random values, and every record is judged by TLC with "
             "exact BigInt floating-point values (castability, result = exact cast of the logged intermediate, UB flag).",
        note="Trusts TLC, BigInt, clang UBSan (float-cast-overflow) as event source, x87 long double.  Floating sources: the scaled "
             "intermediate is the library's own; only integral sources are held to value x factor (5-bit tolerance band on floats).",
        technique="TLA+ cast-pipeline model checked by TLC + trace validation of real conversions by TLC (BigInt floating point)", ref="6/C05"),
    "C06": dict(
        text="TLC explores the trait-instantiation chain of the implicit-conversion policy as a state machine on the scaled machine (every "
             "rep pair x every ratio): totality (no instantiation fires a static_assert), equality with the documented predicate and the "
             "no-overflow-below-threshold lemma.  TLC then emits 4500+ (R1,R2,k) cases with the predicate's verdict over BigInt (k on and "
             "next to every rep's 2147-threshold and maximum, reciprocals, rationals, pi, 2^70); each is compiled as is_convertible / "
             "is_constructible / overload-resolution / common_type queries under g++ and clang++ (a hard error is bisected to the single "
             "case), call-site probes for .as/.in/==/+ must be accepted/rejected as predicted, and all values in [-2147,2147] of every "
             "permitted integral case are converted and judged by TLC.",
        note="Observable = compiler verdicts and values; trusts g++ 12/clang++ 14, TLC, BigInt.  QuantityPoint's surface is covered under C01/C09.",
        technique="TLA+ trait-chain model checked by TLC + TLC-emitted cases compiled as trait queries/probes + value traces validated by TLC", ref="6/C06"),
    "C11": dict(
        text="TLC explores get_value_result for integral types on the scaled machine as a state machine (one action per loop iteration of "
             "checked_int_pow and product, base cast, safe cast) over all one- and two-base magnitudes: outcome OK exactly when the exact "
             "value fits, value exact, no intermediate overflow.  TLC then emits ~125 magnitudes (integers and powers straddling 2^7..2^64, "
             "FLT/DBL/LDBL max/min/denormals, 64-bit primes incl. above 2^63, roots, pi) with the spec's classification; the library's "
             "representable_in, get_value (integer value / float bits), is_integer, is_rational, numerator, denominator, integer_part, == "
             "are read out for all 11 types and judged by TLC (BigInt, 40-digit pi enclosure, L-th power comparison for roots); "
             "not-representable integral cases are compiled as get_value probes that must fail.",
        note="'A few ulps' is read as relative 2^(5-p); values below the smallest normal are only required to be strictly positive when "
             "handed out.  Magnitudes whose single base power overflows long double although the product is in range are outside the grid.",
        technique="TLA+ loop-level model checked by TLC + read-outs of the real library validated by TLC (BigInt rationals, pi enclosure) + failing probes", ref="6/C11"),
    "C02": dict(
        text="Units.tla models the unit-type algebra as term rewriting (ordered pack merge with cancellation, pack powers, the ordering "
             "gauntlet, UnpackIfSolo, scaled-unit folding, prefixes) next to an independent denotation by exponent maps; TLC explores every "
             "expression of depth <= 2 over a universe taken from the real catalogue plus one rewriting step by each algebraic identity and "
             "checks normal form = denotation, identities preserve denotation, pure products keep the identical type, total order.  TLC "
             "then emits ~5-10k expressions over all 57 library units and 32 prefixes with their denotation; each is compiled in up to six "
             "spellings and asserted equivalent to a base-unit reference, type-identical within AC-classes, inequivalent across classes, and "
             "the compiled packs are read out and judged by TLC.",
        note="Unit definitions are inputs (catalogue extracted from the tree).  Depth 3 and beyond is sampled only in the thorough tier.  "
             "Expressions hitting the documented ordering limitation are excluded by a property-level rule (same dimension, magnitude, origin).",
        technique="TLA+ term-rewriting model checked by TLC + TLC-emitted expressions compiled as static_asserts + pack read-outs validated by TLC", ref="6/C02"),
    "C07": dict(
        text="CommonUnit.tla models CommonUnitT as the pipeline FlatSort / EliminateRedundant / FirstMatching / SimplifyIfOnlyOneUnscaledUnit on "
             "top of Units.tla; TLC explores every list of length 2..3 over an 11-unit family in every permutation plus a repetition and checks "
             "gcd magnitude, integer jointly-coprime cofactors, 'is an input when possible', order independence and nesting.  TLC emits ~900 "
             "real lists (six families from the catalogue incl. 2^40-scale and pi-scaled units) with each input's cofactor; compiled "
             "assertions check all permutations/repetition for type identity, cofactors, is-an-input, nesting, Quantity common_type; "
             "cofactor packs are read out and judged by TLC.",
        note="Irrational lists are only required to be permutation-invariant.  Unit definitions are inputs.",
        technique="TLA+ pipeline model checked by TLC + TLC-emitted lists compiled as static_asserts + cofactor read-outs validated by TLC", ref="6/C07"),
    "C10": dict(
        text="CommonPointUnit.tla models the CommonOrigin fold, the displacement-magnitude gcd and FirstMatchingUnit; TLC explores all pairs and "
             "triples (every permutation, a repetition) over 8 model point units with rational scales/origins.  For the real library, pairs "
             "and triples of Kelvins/Celsius/Fahrenheit, prefixed forms and seeded generated point units are compiled; scale and origin of "
             "every input and of CommonPointUnitT are read out and TLC decides with exact BigInt rationals that every input maps by "
             "x -> a*x + b with a in N+, b in N, plus permutation/repetition type identity and 'is an input when possible'.",
        note="Generated origins are kept small so that the library's own long long arithmetic cannot overflow.  Definitions of the temperature units are inputs.",
        technique="TLA+ fold/gcd model checked by TLC + read-outs of compiled common point units validated by TLC (BigInt rationals)", ref="6/C10"),
    "C01": dict(
        text="Every operation that needs a common unit is an action of the type-state machine guarded by SameDim; TLC decides the guard for "
             "every ordered pair of unit expressions (all base dimensions, dimensionless, compound, scaled, powered, prefixed; denotation by "
             "exponent maps over the real catalogue).  Each disabled (pair, operation) -- ~60 operation forms on quantities and points incl. "
             "+ - == < <=> % += construction assignment .as/.in/.coerce_* min/max/clamp hypot fmod remainder arctan2 rounding inverse_* "
             "common_type -- is compiled as a one-statement probe that must be rejected, the same statement on a same-dimension twin must "
             "compile, and is_convertible / is_constructible / common_type questions must answer false (true for twins) without a hard "
             "error (bisected to the single question).",
        note="Observable = compiler verdicts (g++ 12, clang++ 14; precompiled prelude).  Same-dimension twins use floating reps or identical "
             "units so that the conversion policy cannot interfere.  Pair sample is seeded in the quick tier.",
        technique="TLA+ denotation decides action guards (TLC) + one-probe compiles that must fail with compiling twins + trait TUs", ref="6/C01"),
    "C08": dict(
        text="Quantity.tla models a mixed-unit operation on the scaled machine as CommonUnit / CastToCommon (rep_cast + integer multiply under "
             "the implicit-conversion guard) / Apply; TLC explores every value pair of every equal-signedness rep pair x every pair of unit "
             "ratios and proves comparisons = exact rational order, + - % exact, <=> agrees, the six comparisons mutually consistent.  TLC "
             "then emits (rep pair, unit pair) contracts over BigInt; a comparator sweeps all 8-bit-valued operand pairs plus boundary and "
             "random wider values through the real == != < <= > >= + - % <=> and every disagreement, boundary pair and sampled agreement is "
             "re-derived by TLC.",
        note="Sum/difference exactness additionally assumes the raw operator on the scaled values does not overflow; x % -1 at the minimum is "
             "excluded (UB of the raw operator).  Floating reps: covered through C05/C15 tolerances only.",
        technique="TLA+ pipeline model checked by TLC + TLC-emitted contracts swept against the real operators, adjudicated by TLC (BigInt)", ref="6/C08"),
    "C13": dict(
        text="The type-state machine's same-unit actions carry the raw C++ operator's result rep and value: TLC derives the (operator, rep) -> "
             "result-rep table (integral promotion, usual arithmetic conversions) and emits it; each row is compiled as decltype assertions "
             "against both the table and the raw operator's own type, next to layout facts for all 57 library units + compound units x 11 reps "
             "(Quantity and QuantityPoint).  A raw-twin sweep runs every 8-bit operand pair (boundary/random for wider reps) through + - % "
             "unary+- += -= *= /= scalar * / and the comparisons, bit-compares with the raw operator, and TLC re-derives sampled records with "
             "BigInt integer semantics; floating reps incl. NaN payloads/inf/-0 are bit-compared, unit(x).in(unit) round-trips 2^22 random "
             "patterns per float type (all 2^32 float patterns in the thorough tier).",
        note="Raw operations that are UB are outside the domain.  The layout part is decided by the compiler; the specification contributes the table and the integer semantics.",
        technique="TLC-derived operator/rep table compiled as decltype assertions + raw-twin sweep with TLC-validated records", ref="6/C13"),
    "C14": dict(
        text="Product / quotient / power actions of the type-state machine: TLC gives for every ordered pair of unit expressions (catalogue) the "
             "denotation of product and quotient, 'exactly unitless' (collapse to a raw number), quantity-equivalence (integer-division guard) "
             "and per unit dimensionless / policy-safe.  Compiled assertions check decltype(a*b), decltype(a/b) against collapse, reference unit "
             "and raw rep; powers -4..4, sqrt, cbrt, 1/q units; ~420 guard probes (integral / integral, int / integral quantity, negative "
             "int_pow, as_raw_number) must be accepted or rejected as predicted, with unblock_int_div twins.  Values: exhaustive 8-bit operand "
             "pairs and random wider ones next to the raw operator / std::sqrt / std::cbrt, sampled records judged by TLC.",
        note="int_pow on floating reps is compared to 4 ulps (the library multiplies repeatedly).  Unit definitions are inputs.",
        technique="TLC-decided denotations compiled as type assertions and accept/reject probes + raw-twin value sweep with TLC-validated records", ref="6/C14"),
    "C19": dict(
        text="Zero-operand actions of the type-state machine behave as the stored value 0 of the other operand's type (ZeroOps.tla).  A sweep "
             "runs every comparison in both operand orders, q+ZERO, ZERO+q, q-ZERO, ZERO-q, initialisation and assignment from ZERO for 8 units "
             "x 11 reps over all 8/16-bit values, boundary/random wider values and NaN/inf/-0.0/denormals; every disagreement with 'compare the "
             "stored value with 0' and a sample of agreements is judged by TLC from the raw stored value; conversions of ZERO to 13 arithmetic "
             "types and 4 chrono durations; 8 probes using ZERO where a QuantityPoint is required must be rejected (4 quantity twins compile).",
        note="The specification part is small (sign/NaN classification); the strength is the exhaustive sweep.  ZERO - q at the most negative 32/64-bit value is raw UB and excluded.",
        technique="contract sweep against 'stored value op 0' with records validated by TLC + failing probes with twins", ref="6/C19"),
    "C20": dict(
        text="SingleFile.tla models make-single-file (parse_files worklist, the pass structure of sort_topologically, emission) over every "
             "acyclic include graph on N files and every selection order; TLC proves closure / each-file-once / includes-first / no stall.  Every "
             "TLC-emitted graph and selection is materialised as a header tree and run through the REAL parse_files, sort_topologically and "
             "print_unified_file (imported from tools/bin/make-single-file); TLC judges every run and the unified texts are compiled.  Random "
             "selections of the real unit and constant headers x {io, noio} go through the real tool: TLC judges closure/order on the real "
             "include graph; each generated file is compiled with nothing else of Au reachable (alone, twice, two TUs linked) and an "
             "API-surface program per rep class (11, incl. sub-int) must print the same against it and against the header tree; the tree build "
             "runs in all six configurations with identical verdict and output; every public header alone and twice; every *_fwd.hh before its "
             "definition with declared names completed; operator/constructor probes over 13x13 rep pairs compiled in all six configurations must "
             "be accepted or rejected alike (Trace_Packaging.tla judges every record).",
        note="Equivalence across packaging/standard/compiler is differential: the specification states the equivalence and the tool's algorithm, "
             "the compilers decide each build.  libm results are compared to 10 digits.",
        technique="TLA+ model of make-single-file checked by TLC, TLC-generated include graphs replayed through the real tool functions and validated by TLC + differential builds (single file vs tree, 6 configurations) judged by TLC", ref="6/C20"),
    "C09": dict(
        text="PointBig.tla states the affine semantics with exact BigInt rationals: Position = value x scale + origin.  Scale and origin of "
             "Kelvins/Celsius/Fahrenheit, prefixed forms and seeded generated point units are read out of the compiled types; TLC emits for "
             "every ordered pair the contract x -> (x*A + B)/C and an integer position grid; a comparator sweeps dense windows, origins and "
             "random values through coerce_in/coerce_as/in/as<Rep>, the six comparisons, point - point, point +- quantity, quantity + point; every "
             "disagreement and a sample (incl. all equal-position pairs) is re-derived by TLC from the raw inputs and the descriptors; 18 "
             "operations without affine meaning must be rejected (8 twins compile).",
        note="Claims exactness only where the exact image is an integer in range and the intermediates in the library's common point unit (read out, "
             "C10's subject) fit the calculation rep.  Layer A: PointPipeline.tla (the in<NewRep>(unit) pipeline on the scaled machine).",
        technique="TLC-emitted affine contracts swept against the real QuantityPoint operations, adjudicated by TLC (BigInt rationals) + failing probes", ref="6/C09"),
    "C18": dict(
        text="Labels.tla is the label grammar as TLA+ string operators over the unit types of Units.tla (named / prefixed / scaled / power / "
             "product with numerator-denominator groups, magnitude labels with BigInt decimal digits and the unsupported-marker rules).  TLC "
             "emits ~9-15k expressions (all library units x powers incl. negative and fractional, scalings, all 32 prefixes, products, "
             "quotients, three-factor quotients, derived units with and without own labels, scalings by every integer class up to 2^64-1 and "
             "beyond, rationals); the compiled types' label bytes, sizeof, strlen, NUL are read out and TLC judges every record by string "
             "equality and size = length + 1; IToA/UIToA digits against BigInt; streamed quantities (8-bit reps print numbers).",
        note="Own labels are inputs.  A difference that is only a reordering of product factors is MODEL-DRIFT, not a violation.  CommonUnit "
             "labels (EQUIV{...}): every printed element must be the grammar's label of an input scaled to the common unit (Trace_CULabels.tla), "
             "elements may be any non-empty duplicate-free subset (the library drops redundant constituents).",
        technique="TLA+ label grammar evaluated by TLC on read-outs of the real labels (trace validation by string equality)", ref="6/C18"),
    "C16": dict(
        text="Availability of a constant in (unit, type) is the C11 predicate applied to the exact ratio C/u (MagBig.tla).  For the 9 library "
             "constants x scaled coherent units and ~125 generated constants over the TLC-emitted magnitude grid, the ratio is read out as a "
             "prime-power pack and can_store_value_in<T>, C.in<T>(u), C.as<T>(u), the implicit conversion to Quantity<u,T> are evaluated for 11 "
             "types; TLC decides availability <=> representable and exactness of the value; unavailable triples are compiled as probes (three "
             "forms) that must fail; number/quantity x constant products and quotients keep the stored number bit-for-bit with the right unit.",
        note="'Available' = the use compiles.  Floating tolerance as C11.",
        technique="C11's TLA+ magnitude evaluation applied to constant/unit ratios (trace validation by TLC) + failing probes + raw-value mixin checks", ref="6/C16"),
    "C17": dict(
        text="A duration<Rep, Period> is the quantity <seconds x Period, Rep, count> (Gen_Chrono.tla on top of QuantityBig/PolicyBig).  TLC emits "
             "600 (duration type, quantity type) instances with C08's mixed-operation contract and C06's acceptance verdict on Period / unit.  "
             "Compiled is_convertible / is_constructible queries must equal the verdict (and the corresponding quantity's own answer); "
             "as_quantity keeps count bit-for-bit, rep and unit seconds x Period, and the way back (implicit and as_chrono_duration) returns the "
             "same count and reduced period for 40 duration types; mixed ==, !=, <, <=, >, >=, +, - in both operand orders are swept against the "
             "contract and against chrono's own answer, and TLC re-derives every disagreement, boundary pair and sampled agreement.",
        note="libstdc++'s chrono is the reference for 'inside chrono'.  Agreement is demanded only where neither scaling overflows the common rep.",
        technique="TLC-emitted contracts/verdicts (C06 + C08 specs instantiated for durations) + trait TUs + operator sweep adjudicated by TLC", ref="6/C17"),
    "C15": dict(
        text="MathBig.tla states the required values with exact BigInt rationals and a pi enclosure: floor/ceil/round results against "
             "value x ratio within the rounding error of the floating type the std function works in; inverse_in = trunc(K/x); angle "
             "conversions feeding the trig wrappers.  TLC proves the inversion lemma trunc(K/trunc(K/n)) = n for K >= 10^6, n <= 1000 on 3.5M "
             "states, and judges ~150k records of the real functions (13 rounding unit pairs incl. pi ratios x 4 reps; 7 inversion pairs x 4 "
             "reps with the 1..1000 round trip exhaustively; degree/revolution/milliradian conversions).  Compile-time refusal of integral "
             "inversions with K < 10^6 is probed for all 8 integral reps (with accepted twins); sin/cos/tan, hypot, fmod, remainder, abs, "
             "copysign, min, max, clamp, isnan, arc* are bit-compared with the std function on the operands in the required unit.",
        note="Tolerance 2^(5-p) + 2^-40.  The cmath wrappers are decided by raw-twin comparison (the specification contributes the argument conversion).",
        technique="TLA+ lemma checked by TLC + trace validation of rounding/inversion/angle records by TLC (BigInt, pi enclosure) + probes + raw twins", ref="6/C15"),
    "C12": dict(
        text="NumberTheory.tla models add_mod, sub_mod, the recursive mul_mod, half_mod_odd, pow_mod, miller_rabin(2), the Jacobi symbol, the strong "
             "Lucas test and baillie_psw on a W-bit word with every operation wrap-checked; TLC visits every (a, b, n), a, b < n < 2^W for the "
             "helpers (exact residue, no wrap) and every n < 2^W for primality against trial division.  For the real 64-bit code: every n below "
             "2^20 (2^26 thorough) against a sieve with sampled records judged by TLC; ~250-700 adversarial numbers from an independent generator "
             "whose factorisations TLC re-multiplies and re-certifies (trial division / deterministic 12-base Miller-Rabin over BigInt) before "
             "judging is_prime and find_prime_factor; random helper operands incl. moduli above 2^63 judged through a*b = q*n + r with the "
             "unsigned-wrap sanitizer flag and a per-call watchdog; mag<a>() * mag<b>() == mag<a*b>() assertions.",
        note="Baillie-PSW below 2^64 is enumerated and re-certified, not proved.  No source hooks were needed: the wrap-around observable is clang's "
             "unsigned-integer-overflow instrumentation.  is_perfect_square is modelled by its meaning (its Newton iteration does not scale down).",
        technique="TLA+ word-level model checked by TLC + sieve sweep + TLC-certified adversarial inputs and helper residues (BigInt)", ref="6/C12"),
}


WALK_OWNERS = {"C03": "coerce_as", "C05": "rep_cast", "C06": ".as(unit)", "C08": "mixed + / -", "C13": "scalar * and unary -"}
WALK_TEXT = ("  Walks: TLC -simulate on Walk.tla generates defined chains of operations (make, as, coerce_as, rep_cast, mixed + and -, scalar *, "
             "unary -); they run against the real library and Trace_Walk.tla validates every recorded step (static rep, unit magnitude, stored value) "
             "in behaviour mode; this check owns the %s steps.")


EXTRA_TEXT = {
    "C01": "  Also: the independence of the nine base dimensions and the distinctness of their indices are specification (Trace_BaseDims.tla, compiler read-out); "
           "quotients of library units against the unit they would equal if two base dimensions were one; data_in forms; twins of distinct compound units of equal magnitude.",
    "C02": "  Also: SI / IEC prefix factors (Trace_Prefixes.tla) and base-dimension independence (Trace_BaseDims.tla) are specification, not inputs; powers of powers and of "
           "products, singular-name spellings of products and integer powers, same-magnitude different-dimension pairs must be inequivalent.",
    "C07": "  Also: every nesting that shares members, nested cofactors, the common_unit() / make_common() spellings (makers, symbols), std::common_type symmetry for equal reps, "
           "operator result units, equal-size scaled units on different bases.",
    "C09": "  Rep-changing conversions (unsigned narrowing over the full source range, widening and floating destinations) with the domain evaluated in the library's "
           "common point unit (read out); mixed comparisons with an unsigned common rep.",
    "C15": "  Also: integral reps through abs/min/max/clamp/fmod/remainder/hypot/copysign, result units of min/max/clamp for operands of three different units (quantities and "
           "points), exact ties of remainder, rounding at the edge of the floating integer range, inversions with K up to 7e18.",
    "C17": "  Also: every cv/ref form of the duration in the acceptance queries; for accepted pairs the implicit conversion must compile and equal the corresponding "
           "quantity's conversion value for value.",
    "C18": "  Also: SI / IEC prefix symbols (Trace_Prefixes.tla), labels of common units element-wise (Trace_CULabels.tla), units with an empty label in the streaming sweep; a program "
           "that reads the labels must link at C++14.",
    "C20": "  The generated text must consist of exactly the code lines and system includes of the closure's files in the emitted order (independent re-reading of the headers); "
           "every name a selected header defines must be usable through the single file.",
}


def main():
    checks = []
    for pid in ALL:
        if pid not in CHECKS:
            continue
        c = CHECKS[pid]
        checks.append({
            "property_id": pid,
            "quick_cmd": "./check %s --tier quick" % pid,
            "thorough_cmd": "./check %s --tier thorough" % pid,
            "evidence_file": "/verif/evidence/%s.json" % pid,
            "replay_cmd_template": "./check %s --replay {path}" % pid,
            "engine": "tlc+harness",
            "level_claimed": {"category": "model_checking", "text": c["text"] + (WALK_TEXT % WALK_OWNERS[pid] if pid in WALK_OWNERS else "") + EXTRA_TEXT.get(pid, ""), "design_ref": "DESIGN.md section " + c["ref"]},
            "level_note": c["note"],
            "technique": c["technique"],
        })
    na = [{"property_id": p, "reason": "check not yet implemented in this revision of /verif (planned: DESIGN.md section 6/%s)" % p}
          for p in ALL if p not in CHECKS]
    man = {
        "version": 1,
        "setup_cmd": "./setup.sh",
        "hooks": {
            "guard": "AU_VERIF_TRACE",
            "enable": "-DAU_VERIF_TRACE (reserved; no hook was needed: every check observes through the public API and sanitizer events)",
            "baseline_off_cmd": "/verif/tools/baseline.sh /repo",
            "source_commits": [],
            "add_only": True,
        },
        "engines": [
            {"name": "tlc", "path": "/verif/spec", "serves_properties": sorted(CHECKS),
             "kind_free_text": "explicit TLA+ specification; TLC exhaustive runs at scaled constants, case emission, batch and behaviour trace validation"},
            {"name": "harness", "path": "/verif/harness", "serves_properties": sorted(CHECKS),
             "kind_free_text": "C++ drivers of the real library built from /repo's working tree (g++/clang++, UBSan flag handlers), logging NDJSON"},
            {"name": "engine", "path": "/verif/engine", "serves_properties": sorted(CHECKS),
             "kind_free_text": "Python glue: runs TLC, generates C++ from TLC-emitted cases, compile farm, evidence, known findings"},
        ],
        "checks": checks,
        "not_applicable": na,
        "notes": "Entry point ./check <ID> --tier quick|thorough [--replay path]; exit 2 = tool failure (never a verdict). "
                 "known_findings.json lists fixed/known genuine defects.",
    }
    with open(os.path.join(HERE, "MANIFEST.json"), "w") as f:
        json.dump(man, f, indent=1)


if __name__ == "__main__":
    main()
