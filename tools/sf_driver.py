#!/usr/bin/env python3
"""Drives the REAL tools/bin/make-single-file: its functions (parse_files, sort_topologically, filenames) are imported and called.
  graphs <repo> <cases.ndjson> <workdir>    TLC-emitted include graphs materialised as header trees
  real   <repo> <selections.json> <outdir>  selections of real unit/constant headers; also writes the generated single files
One NDJSON record per run on stdout."""
import argparse
import contextlib
import importlib.machinery
import importlib.util
import io
import json
import os
import shutil
import signal
import sys
import traceback


def load_tool(repo):
    path = os.path.join(repo, "tools", "bin", "make-single-file")
    loader = importlib.machinery.SourceFileLoader("msf", path)
    spec = importlib.util.spec_from_loader("msf", loader)
    mod = importlib.util.module_from_spec(spec)
    loader.exec_module(mod)
    return mod


def run_once(msf, names):
    start = list(names)
    files = msf.parse_files(filenames=names)
    graph = [{"f": f, "deps": list(files[f].graph_includes)} for f in files]     # copied before the sort mutates the lists
    order = list(files.keys())
    ready = msf.sort_topologically(files)
    return start, graph, order, ready, files


class Overtime(Exception):
    pass


def guarded(ident, fn, limit=20):
    """one run of the real functions; an exception or no return within `limit` seconds becomes a record, blamed on the tool iff the innermost frame is the tool's"""
    def onalarm(sig, frm):
        raise Overtime()
    signal.signal(signal.SIGALRM, onalarm)
    signal.alarm(limit)
    try:
        rec = fn()
        signal.alarm(0)
        return rec
    except Overtime:
        return {"id": ident, "error": "no return within %d s" % limit, "in_tool": True}
    except BaseException as e:      # noqa
        signal.alarm(0)
        tb = traceback.extract_tb(sys.exc_info()[2])
        return {"id": ident, "error": "%s: %s" % (type(e).__name__, e), "in_tool": "make-single-file" in tb[-1].filename, "where": "%s:%d" % (tb[-1].filename, tb[-1].lineno)}


def unified_text(msf, names, **kw):
    files = msf.parse_files(filenames=list(names))
    buf = io.StringIO()
    with contextlib.redirect_stdout(buf):
        msf.print_unified_file(files, args=argparse.Namespace(**kw))
    return buf.getvalue()


def code_lines(path):
    """an independent reading of one header: its code lines (no blank lines, no #pragma once, no #include, no leading licence comment)
    and its system includes"""
    code, incs = [], []
    in_header = True
    for raw in open(path):
        line = raw.rstrip()
        if in_header and (line.startswith("//") or not line.strip()):
            continue
        in_header = False
        if not line.strip() or line.startswith("#pragma once"):
            continue
        if line.startswith("#include"):
            if '"au/' not in line:
                incs.append(line)
            continue
        code.append(line)
    return code, incs


def text_faithful(text, ready, root, n_manifest_items):
    """does the unified text consist of exactly the code lines of the files in `ready` order, once each, and of all their system includes?"""
    want_code, want_incs = [], set()
    for f in ready:
        c, i = code_lines(os.path.join(root, "au", "code", f))
        want_code += c
        want_incs |= set(i)
    lines = text.splitlines()
    ver = next((k for k, l in enumerate(lines) if l.startswith("// Version identifier:")), None)
    if ver is None:
        return {"code_same": 0, "incs_same": 0, "first_diff": "no manifest in the generated text", "incs_diff": []}
    start = ver + 3 + n_manifest_items          # version, <iostream>, "units:", the units, "constants:", the constants
    got_code = [l.rstrip() for l in lines[start + 1:] if l.strip() and not l.startswith("#include")]
    got_incs = {l.rstrip() for l in lines if l.startswith("#include")}
    first_bad = next((k for k, (a, b) in enumerate(zip(got_code, want_code)) if a != b), None)
    if first_bad is None and len(got_code) != len(want_code):
        first_bad = min(len(got_code), len(want_code))
    return {"code_same": int(first_bad is None), "incs_same": int(got_incs == want_incs),
            "first_diff": "" if first_bad is None else "line %d: got `%s`, source has `%s`" % (first_bad, (got_code + ["<end>"])[min(first_bad, len(got_code))][:120], (want_code + ["<end>"])[min(first_bad, len(want_code))][:120]),
            "incs_diff": sorted(got_incs ^ want_incs)[:6]}


def main():
    mode, repo = sys.argv[1], sys.argv[2]
    msf = load_tool(repo)
    if mode == "graphs":
        cases = [json.loads(l) for l in open(sys.argv[3])]
        work = sys.argv[4]
        bygraph = {}
        for i, c in enumerate(cases):
            c["id"] = i
            bygraph.setdefault(json.dumps(sorted((e["f"], e["h"]) for e in c["edges"])) + str(c["n"]), []).append(c)
        for gi, (key, lst) in enumerate(bygraph.items()):
            root = os.path.join(work, "g%d" % gi)
            os.makedirs(os.path.join(root, "au", "code", "au"), exist_ok=True)
            n = lst[0]["n"]
            for f in range(1, n + 1):
                with open(os.path.join(root, "au", "code", "au", "f%d.hh" % f), "w") as fh:
                    fh.write("#pragma once\n#include <cstdint>\n")
                    for e in sorted(lst[0]["edges"], key=lambda e: e["h"]):
                        if e["f"] == f:
                            fh.write('#include "au/f%d.hh"\n' % e["h"])
                    fh.write("inline int f%d() { return %d%s; }\n" % (f, f, "".join(" + f%d()" % e["h"] for e in lst[0]["edges"] if e["f"] == f)))
            os.chdir(root)
            for c in lst:
                def one(c=c):
                    sel = ["au/f%d.hh" % s for s in c["sel"]]
                    start, graph, order, ready, _ = run_once(msf, list(sel))
                    num = lambda x: int(x[len("au/f"):-3])
                    return {"id": c["id"], "sel": start, "graph": graph, "files": order, "ready": ready,
                            "pred_files_same": [num(x) for x in order] == c["predicted"]["files"],
                            "pred_ready_same": [num(x) for x in ready] == c["predicted"]["ready"],
                            "unified": unified_text(msf, sel, main_files=sel, units=[], constants=[], version_id="verif", include_io=False)}
                print(json.dumps(guarded(c["id"], one)), flush=True)
            os.chdir(work)
            shutil.rmtree(root, ignore_errors=True)
    else:
        sels = json.load(open(sys.argv[3]))
        outdir = sys.argv[4]
        os.chdir(repo)
        for i, s in enumerate(sels):
          def one(i=i, s=s):
            names = msf.filenames(main_files=[], units=s["units"], constants=s["constants"], include_io=s["io"])
            _, graph, order, ready, files = run_once(msf, list(names))
            # what the user asked for, spelled out here and not taken from the tool: the closure is judged against this
            start = ["au/au.hh"] + ["au/units/%s.hh" % u for u in s["units"]] + ["au/constants/%s.hh" % c.lower() for c in s["constants"]] + (["au/io.hh"] if s["io"] else [])
            # the real command-line entry point, for the generated text
            argv = ["make-single-file", "--units"] + s["units"] + ["--constants"] + s["constants"] + ["--version-id", "verif"] + ([] if s["io"] else ["--noio"])
            buf = io.StringIO()
            old = sys.argv
            sys.argv = argv
            try:
                with contextlib.redirect_stdout(buf):
                    msf.main()
            finally:
                sys.argv = old
            d = os.path.join(outdir, "sf%d" % i)
            os.makedirs(d, exist_ok=True)
            with open(os.path.join(d, "au.hh"), "w") as fh:
                fh.write(buf.getvalue())
            text = buf.getvalue()
            faith = text_faithful(text, msf.sort_topologically(msf.parse_files(filenames=list(names))), repo, len(s["units"]) + len(s["constants"]))
            return {"id": i, "sel": start, "graph": graph, "files": order, "ready": ready, "dir": d, "faith": faith,
                    "project_includes_left": [l for l in text.splitlines() if l.startswith('#include "au')],
                    "pragma_once_count": text.count("#pragma once")}
          print(json.dumps(guarded(i, one, 120)), flush=True)


if __name__ == "__main__":
    main()
