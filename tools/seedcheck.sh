#!/bin/bash
# Verify a seeded defect and run our check against it.
# usage: seedcheck.sh <PROP> <dir with patch.diff and demo.cc> [check ids...]
# 1. scratch worktree of /repo HEAD + patch  2. existing suite must pass  3. demo passes on original, fails on patched
# 4. AU_REPO=<worktree> ./check <ids> --tier quick   -> prints a JSON summary line; removes the worktree.
PROP=$1; DIR=$2; shift 2; CHECKS=${@:-$PROP}
WT=$(mktemp -d /tmp/seedwt_XXXXXX); rmdir $WT
git -C /repo worktree add -q $WT HEAD || exit 9
trap 'git -C /repo worktree remove --force $WT >/dev/null 2>&1; rm -rf $WT' EXIT
if ! git -C $WT apply $DIR/patch.diff; then echo "{\"prop\":\"$PROP\",\"dir\":\"$DIR\",\"error\":\"patch does not apply\"}"; exit 8; fi
SUITE=$(/verif/tools/baseline.sh $WT 2>&1 | tail -4 | grep -c "100% tests passed")
DEMO_ORIG=na; DEMO_PATCH=na
if [ -f $DIR/demo.cc ]; then
  g++ -std=c++14 -w -I /repo/au/code $DIR/demo.cc -o $WT/demo_orig >/dev/null 2>&1 && { AU_INC=/repo/au/code AU_INCLUDE=/repo/au/code AU_INCLUDE_DIR=/repo/au/code AU_CODE_DIR=/repo/au/code AU_ROOT=/repo timeout 300 $WT/demo_orig /repo/au/code >/dev/null 2>&1; DEMO_ORIG=$?; } || DEMO_ORIG=compile-error
  g++ -std=c++14 -w -I $WT/au/code $DIR/demo.cc -o $WT/demo_patch >/dev/null 2>&1 && { AU_INC=$WT/au/code AU_INCLUDE=$WT/au/code AU_INCLUDE_DIR=$WT/au/code AU_CODE_DIR=$WT/au/code AU_ROOT=$WT timeout 300 $WT/demo_patch $WT/au/code >/dev/null 2>&1; DEMO_PATCH=$?; } || DEMO_PATCH=compile-error
fi
if [ -f $DIR/demo.sh ]; then
  (cd $DIR && timeout 600 bash $DIR/demo.sh /repo >/dev/null 2>&1); DEMO_ORIG=$?
  (cd $DIR && timeout 600 bash $DIR/demo.sh $WT >/dev/null 2>&1); DEMO_PATCH=$?
fi
RESF=$(mktemp /tmp/seedres_XXXXXX)
for C in $CHECKS; do
  OUT=$(cd /verif && AU_REPO=$WT timeout 3000 ./check $C --tier quick 2>&1); RC=$?
  echo "$OUT" > $RESF.$C.out
  echo "$C $RC" >> $RESF
done
python3 - "$PROP" "$DIR" "$SUITE" "$DEMO_ORIG" "$DEMO_PATCH" "$RESF" <<'PYEOF'
import json, sys
prop, d, suite, do, dp, resf = sys.argv[1:7]
checks = []
for line in open(resf):
    c, rc = line.split()
    out = open("%s.%s.out" % (resf, c)).read().splitlines()
    viol = [i for i, l in enumerate(out) if l.startswith("VIOLATION")]
    first = ""
    for i in viol[:1]:
        first = next((l for l in out[i + 1:i + 3] if "what:" in l), "")[:260]
    err = next((l for l in out if l.startswith("ERROR")), "")[:200]
    checks.append({"check": c, "rc": int(rc), "violations": len(viol), "first": first, "error": err})
print(json.dumps({"prop": prop, "dir": d, "suite_passes": int(suite), "demo_on_original": do, "demo_on_patched": dp, "checks": checks}))
PYEOF
rm -f $RESF $RESF.*.out
