// Read-out of a unit's dimension pack, magnitude pack and origin as JSON (catalogue extraction and
// Layer C of the unit-algebra properties).  Uses documented pack traits (BaseT/ExpT) on detail::DimT/MagT.
#pragma once
#include "au/au.hh"
#include "wire.hh"
#include <string>
namespace auv {
using namespace au;

template <typename B> struct MagBaseJson {
    static std::string get() { return "\"" + dec((i128)(u128)B::value()) + "\""; }
};
template <> struct MagBaseJson<Pi> { static std::string get() { return "\"pi\""; } };

template <typename P> struct MagPackJson;
template <> struct MagPackJson<Magnitude<>> { static std::string get() { return ""; } };
template <typename BP, typename... R> struct MagPackJson<Magnitude<BP, R...>> {
    static std::string get() {
        std::string t = "{\"b\":" + MagBaseJson<BaseT<BP>>::get() + ",\"n\":" + std::to_string((long long)ExpT<BP>::num) + ",\"d\":" +
                        std::to_string((long long)ExpT<BP>::den) + "}";
        std::string rest = MagPackJson<Magnitude<R...>>::get();
        return rest.empty() ? t : t + "," + rest;
    }
};
template <typename P> struct DimPackJson;
template <> struct DimPackJson<Dimension<>> { static std::string get() { return ""; } };
template <typename BP, typename... R> struct DimPackJson<Dimension<BP, R...>> {
    static std::string get() {
        std::string t = "{\"b\":" + std::to_string((long long)BaseT<BP>::base_dim_index) + ",\"n\":" + std::to_string((long long)ExpT<BP>::num) +
                        ",\"d\":" + std::to_string((long long)ExpT<BP>::den) + "}";
        std::string rest = DimPackJson<Dimension<R...>>::get();
        return rest.empty() ? t : t + "," + rest;
    }
};
template <typename M> std::string mag_json(M = M{}) { return "[" + MagPackJson<M>::get() + "]"; }
template <typename U> std::string unit_dim_json() { return "[" + DimPackJson<detail::DimT<U>>::get() + "]"; }
template <typename U> std::string unit_mag_json() { return "[" + MagPackJson<detail::MagT<U>>::get() + "]"; }

// origin: {"count":"<dec>","mag":[...]} (value = count * mag of the origin's own unit) or null for ZERO
template <typename O> struct OriginJson {
    static std::string get(O o) {
        return "{\"count\":\"" + dec((i128)o.in(typename O::Unit{})) + "\",\"mag\":" + unit_mag_json<typename O::Unit>() + "}";
    }
};
template <> struct OriginJson<Zero> { static std::string get(Zero) { return "null"; } };

template <typename U> std::string unit_origin_json() {
    auto o = detail::OriginOf<U>::value();
    return OriginJson<decltype(o)>::get(o);
}
// same, but ZERO is rendered as count 0 (for consumers that cannot take JSON null)
template <typename U> std::string unit_origin_json0() {
    std::string s = unit_origin_json<U>();
    return s == "null" ? std::string("{\"count\":\"0\",\"mag\":[]}") : s;
}
template <typename U> std::string unit_json(const char *id) {
    return std::string("{\"id\":\"") + id + "\",\"dim\":" + unit_dim_json<U>() + ",\"mag\":" + unit_mag_json<U>() + ",\"origin\":" + unit_origin_json<U>() +
           ",\"label\":\"" + json_escape(unit_label(U{})) + "\",\"label_size\":" + std::to_string(sizeof(unit_label(U{}))) + "}";
}
}  // namespace auv
