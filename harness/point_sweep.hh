// C09: QuantityPoint conversions and mixed operations against the TLC-computed affine contracts.
#pragma once
#include "unit_readout.hh"
#include "au/units/kelvins.hh"
#include "au/units/celsius.hh"
#include "au/units/fahrenheit.hh"
#include "au/prefix.hh"
#include <vector>
namespace auv {
using namespace au;
template <typename U> void punit(int id) {
    std::printf("{\"k\":\"punit\",\"id\":%d,\"mag\":%s,\"origin\":%s}\n", id, unit_mag_json<U>().c_str(), unit_origin_json0<U>().c_str());
}
inline std::vector<long long> window(long long lo, long long hi, int dense, uint64_t seed, int nrand) {
    std::vector<long long> v;
    for (long long x = -dense; x <= dense; ++x) v.push_back(x);
    long long pts[] = {lo, hi, lo + 1, hi - 1, 273, 27315, 273150, 45967, -273, -27315, 32767, -32768, 1000, -1000, 100000, 459670};
    for (long long p : pts) for (int d = -2; d <= 2; ++d) v.push_back(p + d);
    Rng rng(seed);
    for (int i = 0; i < nrand; ++i) v.push_back((long long)(rng.next() % (uint64_t)(hi - lo + 1)) + lo);
    std::vector<long long> out;
    for (long long x : v) if (x >= lo && x <= hi) out.push_back(x);
    return out;
}
template <bool SameRep> struct UnitOnlyForms {
    template <typename P, typename U, typename R> static bool agree(P p, U u, R res) { return p.coerce_in(u) == res && p.coerce_as(u).in(u) == res; }
};
template <> struct UnitOnlyForms<false> { template <typename P, typename U, typename R> static bool agree(P, U, R) { return true; } };
template <typename U1, typename R1, typename U2, typename R2>
void pconv(int i, int j, const char *A_, const char *B_, const char *C_, long long lo, long long hi, uint64_t seed) {
    const i128 A = parse_i128(A_), B = parse_i128(B_), C = parse_i128(C_);
    long long n = 0, mism = 0, nexact = 0;
    Rng rng(seed ^ (uint64_t)(i * 131 + j));
    const long long l1 = (long long)std::max<long double>((long double)lo, (long double)std::numeric_limits<R1>::lowest());
    std::vector<long long> xs = window(l1, hi, 300, seed + i * 7 + j, 3000);
    {   // inputs whose exact image is an integer of the destination, spread over the whole source range (incl. the top bit of unsigned sources)
        const long double r2lo = std::is_floating_point<R2>::value ? -9.0e15L : (long double)std::numeric_limits<R2>::lowest();
        const long double r2hi = std::is_floating_point<R2>::value ? 9.0e15L : (long double)std::numeric_limits<R2>::max();
        const i128 s1lo = (i128)std::numeric_limits<R1>::lowest(), s1hi = (i128)std::numeric_limits<R1>::max();
        for (int t = 0; t < 400; ++t) {
            i128 xx = (i128)(rng.next() % (uint64_t)((s1hi - s1lo) > (i128)0x7fffffffffffffffLL ? 0x7fffffffffffffffULL : (uint64_t)(s1hi - s1lo) + 1)) + s1lo;
            if (t % 4 == 0) xx = s1hi - (i128)(rng.next() % 4096);
            if (t % 4 == 1 && std::is_unsigned<R1>::value) xx = (s1hi / 2) + 1 + (i128)(rng.next() % (uint64_t)(s1hi / 2));
            i128 e0 = (xx * A + B) / C;                       // nearby exact image
            i128 numr = e0 * C - B;
            if (A == 0 || numr % A != 0) { xx -= ((xx * A + B) % C) / (A > 0 ? A : 1); numr = xx * A; if (((xx * A + B) % C) != 0) continue; }
            else xx = numr / A;
            i128 ee = (xx * A + B) / C;
            if (xx < s1lo || xx > s1hi || xx > (i128)0x7fffffffffffffffLL || (long double)ee < r2lo || (long double)ee > r2hi) continue;
            if (std::fabs((long double)xx * (long double)A) > 1.8e19L) continue;    // beyond every calculation type
            xs.push_back((long long)xx);
        }
    }
    for (long long xv : xs) {
        R1 x = (R1)xv;
        AUV_INFLIGHT("point conversion unit %d (%s) -> unit %d (%s) x=%lld", i, rep_name<R1>(), j, rep_name<R2>(), xv);
        auto p = make_quantity_point<U1>(x);
        au_verif_ub_flag = 0;
        R2 res = p.template coerce_in<R2>(U2{});
        R2 r2 = p.template coerce_as<R2>(U2{}).in(U2{});
        R2 r3 = p.template in<R2>(U2{});
        R2 r4 = p.template as<R2>(U2{}).in(U2{});
        bool unit_only_ok = UnitOnlyForms<std::is_same<R1, R2>::value>::agree(p, U2{}, res);     // p.coerce_in(u), p.coerce_as(u): rep stays R1
        int ub = au_verif_ub_flag;
        ++n;
        i128 num = (i128)xv * A + B;
        bool exact = (num % C) == 0;
        i128 e = exact ? num / C : 0;
        const bool f2 = std::is_floating_point<R2>::value;
        // the domain of the claim, as in PointBig.tla but with the unreduced A, B, C (so it is contained in the specification's domain)
        typedef typename std::conditional<(sizeof(R1) >= sizeof(R2)), R1, R2>::type Calc;
        const long double lim = f2 ? std::ldexp(1.0L, std::numeric_limits<R2>::digits)
                                   : (std::is_signed<Calc>::value ? (long double)std::numeric_limits<Calc>::max()
                                      : ((std::is_unsigned<R1>::value && std::is_unsigned<R2>::value && B == 0) ? (long double)std::numeric_limits<Calc>::max() : 2147483647.0L));
        using CP = CommonPointUnitT<U1, U2>;
        const long double k1 = get_value<long double>(unit_ratio(U1{}, CP{})), k2 = get_value<long double>(unit_ratio(U2{}, CP{}));
        const bool hsmall = std::fabs((long double)xv) * k1 + std::fabs((long double)B) / (long double)C * k2 <= lim * 0.999L && k2 <= 2147483647.0L;
        bool inr = hsmall && exact && (f2 ? (e > -((i128)1 << 53) && e < ((i128)1 << 53)) : (e >= (i128)std::numeric_limits<R2>::lowest() && e <= (i128)std::numeric_limits<R2>::max()));
        bool resbad = f2 ? !(std::fabs((long double)res - (long double)e) <= (f2 && sizeof(R2) == 4 ? 1e-4L : 1e-9L) * (std::fabs((long double)xv * (long double)A) + std::fabs((long double)B) + (long double)C) / (long double)C)
                         : ((i128)res != e);
        bool bad = (r2 != res) || (r3 != res) || (r4 != res) || !unit_only_ok || (inr && (resbad || (ub && !(std::is_unsigned<R1>::value && std::is_unsigned<R2>::value))));
        if (exact) ++nexact;
        if (bad) ++mism;
        if ((bad && mism <= 25) || (exact && (rng.next() % 16 == 0)) || (!exact && rng.next() % 512 == 0))
            std::printf("{\"k\":\"pconv\",\"i\":%d,\"j\":%d,\"cp\":%s,\"R1\":\"%s\",\"R2\":\"%s\",\"x\":%s,\"res\":%s,\"resf\":%s,\"cexact\":%d,\"ub\":%d,\"forms\":%d,\"why\":\"%s\"}\n", i, j, unit_mag_json<CP>().c_str(), rep_name<R1>(), rep_name<R2>(),
                        wire((i128)xv).c_str(), f2 ? wire((i128)0).c_str() : wire((i128)res).c_str(), fwire((long double)res).c_str(), (int)exact, ub, (int)((r2 == res) && (r3 == res) && (r4 == res) && unit_only_ok), bad ? "mismatch" : "sample");
    }
    std::printf("{\"k\":\"ptsum\",\"what\":\"conv\",\"i\":%d,\"j\":%d,\"n\":%lld,\"exact\":%lld,\"mismatches\":%lld}\n", i, j, n, nexact, mism);
}
template <typename U1, typename U2, typename R, typename R2 = R>
void pmixed(int i, int j, const char *pa1_, const char *pb1_, const char *pa2_, const char *pb2_, uint64_t seed) {
    const i128 pa1 = parse_i128(pa1_), pb1 = parse_i128(pb1_), pa2 = parse_i128(pa2_), pb2 = parse_i128(pb2_);
    long long n = 0, mism = 0;
    Rng rng(seed ^ (uint64_t)(i * 17 + j * 3));
    std::vector<long long> xs = window(-40000, 40000, 24, seed + i, 60), ys = window(-40000, 40000, 24, seed + j + 99, 60);
    for (long long xv : xs) for (long long yv : ys) {
        AUV_INFLIGHT("mixed point ops units %d,%d (%s) x=%lld y=%lld", i, j, rep_name<R>(), xv, yv);
        auto p1 = make_quantity_point<U1>((R)xv);
        if (xv < (long long)std::numeric_limits<R>::lowest() || xv > (long long)std::numeric_limits<R>::max() || yv < (long long)std::numeric_limits<R2>::lowest() || yv > (long long)std::numeric_limits<R2>::max()) continue;
        auto p2 = make_quantity_point<U2>((R2)yv);
        bool lt = p1 < p2, le = p1 <= p2, gt = p1 > p2, ge = p1 >= p2, eq = p1 == p2, ne = p1 != p2;
        auto d = p1 - p2;
        auto s = p1 + make_quantity<U2>((R2)yv);
        auto m = p1 - make_quantity<U2>((R2)yv);
        auto s2 = make_quantity<U2>((R2)yv) + p1;
        ++n;
        i128 P1 = (i128)xv * pa1 + pb1, P2 = (i128)yv * pa2 + pb2;
        bool bad = (lt != (P1 < P2)) || (le != (P1 <= P2)) || (gt != (P1 > P2)) || (ge != (P1 >= P2)) || (eq != (P1 == P2)) || (ne != (P1 != P2)) || !(s2 == s);
        if (bad) ++mism;
        typedef typename decltype(d)::Unit DU; typedef typename decltype(s)::Unit SU;
        if ((bad && mism <= 25) || rng.next() % 97 == 0 || P1 == P2)
            std::printf("{\"k\":\"pmixed\",\"i\":%d,\"j\":%d,\"dR\":\"%s\",\"sR\":\"%s\",\"R\":\"%s\",\"x\":%s,\"y\":%s,\"lt\":%d,\"le\":%d,\"gt\":%d,\"ge\":%d,\"eq\":%d,\"ne\":%d,\"dval\":%s,\"dmag\":%s,\"sv\":%s,\"mv\":%s,\"smag\":%s,\"why\":\"%s\"}\n",
                        i, j, rep_name<typename decltype(d)::Rep>(), rep_name<typename decltype(s)::Rep>(), rep_name<R>(), wire((i128)xv).c_str(), wire((i128)yv).c_str(), lt, le, gt, ge, eq, ne, wire((i128)d.in(DU{})).c_str(), unit_mag_json<DU>().c_str(),
                        wire((i128)s.in(SU{})).c_str(), wire((i128)m.in(SU{})).c_str(), unit_mag_json<SU>().c_str(), bad ? "mismatch" : "sample");
    }
    std::printf("{\"k\":\"ptsum\",\"what\":\"mixed\",\"i\":%d,\"j\":%d,\"n\":%lld,\"exact\":%lld,\"mismatches\":%lld}\n", i, j, n, n, mism);
}
}  // namespace auv
