// Plain (non-sanitized) builds: the UB flag exists but never fires.
extern "C" { volatile int au_verif_ub_flag = 0; }
