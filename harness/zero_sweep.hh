// C19: ZERO against every comparison / addition / subtraction / initialisation, per unit and rep.
#pragma once
#include "au/au.hh"
#include "au/units/meters.hh"
#include "au/units/celsius.hh"
#include "au/units/hertz.hh"
#include "au/units/percent.hh"
#include "au/units/unos.hh"
#include "au/units/seconds.hh"
#include "wire.hh"
#include <chrono>
#include <cstring>
namespace auv {
using namespace au;
template <typename A> bool zb(A a, A b) { return std::memcmp(&a, &b, sizeof(A) > 10 && std::is_floating_point<A>::value ? 10 : sizeof(A)) == 0 || (a != a && b != b); }
template <typename A, typename B> bool zb(A, B) { return false; }
struct ZT { long long n = 0, mism = 0, logged = 0; };
template <typename U, typename R> void zero_one(const char *uname, R x, ZT &t, bool lg) {
    ++t.n;
    AUV_INFLIGHT("ZERO operations U=%s R=%s", uname, rep_name<R>());
    auto q = make_quantity<U>(x);
    int qz[6] = {q < ZERO, q <= ZERO, q > ZERO, q >= ZERO, q == ZERO, q != ZERO};
    int zq[6] = {ZERO < q, ZERO <= q, ZERO > q, ZERO >= q, ZERO == q, ZERO != q};
    int raw1[6] = {x < 0, x <= 0, x > 0, x >= 0, x == 0, x != 0};
    int raw2[6] = {0 < x, 0 <= x, 0 > x, 0 >= x, 0 == x, 0 != x};
    bool plus_same = zb((q + ZERO).in(U{}), (x + R{0})), minus_same = zb((q - ZERO).in(U{}), (x - R{0})), zplus = zb((ZERO + q).in(U{}), (R{0} + x));
    bool negdef = !(std::is_integral<R>::value && std::is_signed<decltype(-x)>::value && sizeof(R) >= 4 && x == std::numeric_limits<R>::lowest());
    bool zminus = !negdef || zb((ZERO - q).in(U{}), (R{0} - x));
    Quantity<U, R> z1 = ZERO; Quantity<U, R> z2{ZERO}; Quantity<U, R> z3 = q; z3 = ZERO;
    bool init0 = z1.in(U{}) == R{0} && z2.in(U{}) == R{0} && z3.in(U{}) == R{0} && !std::signbit((long double)z1.in(U{}));
    bool bad = std::memcmp(qz, raw1, sizeof qz) != 0 || std::memcmp(zq, raw2, sizeof zq) != 0 || !plus_same || !minus_same || !zplus || !zminus || !init0;
    if (bad) ++t.mism;
    if ((bad && t.mism <= 20) || lg) {
        ++t.logged;
        std::printf("{\"k\":\"zero\",\"U\":\"%s\",\"R\":\"%s\",\"x\":%s,\"qz\":{\"lt\":%d,\"le\":%d,\"gt\":%d,\"ge\":%d,\"eq\":%d,\"ne\":%d},\"zq\":{\"lt\":%d,\"le\":%d,\"gt\":%d,\"ge\":%d,\"eq\":%d,\"ne\":%d},"
                    "\"plus_same\":%d,\"minus_same\":%d,\"zplus_same\":%d,\"zminus_neg\":%d,\"init_zero\":%d,\"why\":\"%s\"}\n",
                    uname, rep_name<R>(), anywire(x).c_str(), qz[0], qz[1], qz[2], qz[3], qz[4], qz[5], zq[0], zq[1], zq[2], zq[3], zq[4], zq[5],
                    (int)plus_same, (int)minus_same, (int)zplus, (int)zminus, (int)init0, bad ? "mismatch" : "sample");
    }
}
template <typename U, typename R, std::enable_if_t<std::is_integral<R>::value, int> = 0> void zero_values(const char *uname, uint64_t seed, ZT &t) {
    Rng rng(seed ^ sizeof(R));
    if (sizeof(R) <= 2) { for (long long v = std::numeric_limits<R>::lowest(); v <= (long long)std::numeric_limits<R>::max(); ++v) zero_one<U, R>(uname, (R)v, t, v == 0 || v == -1 || v == 1 || v % 4099 == 0); }
    else {
        R pts[] = {0, 1, (R)-1, std::numeric_limits<R>::max(), std::numeric_limits<R>::lowest(), (R)(std::numeric_limits<R>::lowest() + 1), 2, (R)-2};
        for (R p : pts) zero_one<U, R>(uname, p, t, true);
        for (int i = 0; i < 4000; ++i) zero_one<U, R>(uname, (R)((i128)(R)rng.next() >> (rng.next() % (8 * sizeof(R)))), t, i % 200 == 0);
    }
}
template <typename U, typename R, std::enable_if_t<std::is_floating_point<R>::value, int> = 0> void zero_values(const char *uname, uint64_t seed, ZT &t) {
    Rng rng(seed ^ sizeof(R) * 3);
    R sp[] = {R(0), -R(0), R(1), R(-1), std::numeric_limits<R>::infinity(), -std::numeric_limits<R>::infinity(), std::numeric_limits<R>::quiet_NaN(), -std::numeric_limits<R>::quiet_NaN(),
              std::numeric_limits<R>::denorm_min(), -std::numeric_limits<R>::denorm_min(), std::numeric_limits<R>::max(), std::numeric_limits<R>::lowest(), std::numeric_limits<R>::min()};
    for (R p : sp) zero_one<U, R>(uname, p, t, true);
    for (int i = 0; i < 4000; ++i) { R x = (R)std::ldexp((long double)(rng.next() >> 11) / 9007199254740992.0L, (int)(rng.next() % 200) - 100); if (rng.next() & 1) x = -x; zero_one<U, R>(uname, x, t, i % 200 == 0); }
}
template <typename T> bool zero_to_arith() { T a = ZERO; T b{ZERO}; T c = static_cast<T>(ZERO); return a == T{0} && b == T{0} && c == T{0}; }
template <typename U> void zero_unit(const char *uname, uint64_t seed) {
    ZT t;
    zero_values<U, int8_t>(uname, seed, t); zero_values<U, uint8_t>(uname, seed, t); zero_values<U, int16_t>(uname, seed, t); zero_values<U, uint16_t>(uname, seed, t);
    zero_values<U, int32_t>(uname, seed, t); zero_values<U, uint32_t>(uname, seed, t); zero_values<U, int64_t>(uname, seed, t); zero_values<U, uint64_t>(uname, seed, t);
    zero_values<U, float>(uname, seed, t); zero_values<U, double>(uname, seed, t); zero_values<U, long double>(uname, seed, t);
    std::printf("{\"k\":\"zsum\",\"U\":\"%s\",\"n\":%lld,\"mismatches\":%lld}\n", uname, t.n, t.mism);
}
inline void zero_conversions() {
    bool ok = zero_to_arith<int8_t>() && zero_to_arith<uint8_t>() && zero_to_arith<int16_t>() && zero_to_arith<uint16_t>() && zero_to_arith<int32_t>() && zero_to_arith<uint32_t>() &&
              zero_to_arith<int64_t>() && zero_to_arith<uint64_t>() && zero_to_arith<float>() && zero_to_arith<double>() && zero_to_arith<long double>() && zero_to_arith<bool>() && zero_to_arith<char>();
    std::chrono::nanoseconds d1 = ZERO; std::chrono::hours d2 = ZERO; std::chrono::duration<double, std::ratio<1001, 30000>> d3 = ZERO; std::chrono::duration<float> d4{ZERO};
    bool okc = d1.count() == 0 && d2.count() == 0 && d3.count() == 0 && d4.count() == 0;
    bool okz = (ZERO == ZERO) && !(ZERO != ZERO) && (ZERO <= ZERO) && (ZERO >= ZERO) && !(ZERO < ZERO) && !(ZERO > ZERO);
    std::printf("{\"k\":\"zconv\",\"arith\":%d,\"chrono\":%d,\"zz\":%d}\n", (int)ok, (int)okc, (int)okz);
}
}  // namespace auv
