// Wire formats shared by all harnesses (DESIGN Appendix A).  No library knowledge here.
#pragma once
#include <cmath>
#include <cstdint>
#include <cstdio>
#include <cstdlib>
#include <cstring>
#include <limits>
#include <string>
typedef __int128 i128;
typedef unsigned __int128 u128;

// {"s":-1|0|1,"l":[base-10^4 limbs, little endian]}
inline std::string wire_u(u128 m, bool neg) {
    if (m == 0) return "{\"s\":0,\"l\":[]}";
    std::string s = std::string("{\"s\":") + (neg ? "-1" : "1") + ",\"l\":[";
    bool first = true;
    while (m) {
        unsigned d = (unsigned)(m % 10000);
        m /= 10000;
        if (!first) s += ",";
        s += std::to_string(d);
        first = false;
    }
    s += "]}";
    return s;
}
inline std::string wire(i128 v) {
    bool neg = v < 0;
    u128 m = neg ? (u128)(-(v + 1)) + 1 : (u128)v;
    return wire_u(m, neg);
}
inline std::string dec(i128 v) {
    if (v == 0) return "0";
    bool neg = v < 0;
    u128 m = neg ? (u128)(-(v + 1)) + 1 : (u128)v;
    std::string s;
    while (m) { s.insert(s.begin(), (char)('0' + (int)(m % 10))); m /= 10; }
    return neg ? "-" + s : s;
}
inline i128 parse_i128(const char *s) {
    bool neg = (*s == '-');
    if (neg) ++s;
    u128 m = 0;
    for (; *s; ++s) m = m * 10 + (unsigned)(*s - '0');
    return neg ? -(i128)m : (i128)m;
}

inline std::string json_escape(const char *s) {
    std::string o;
    for (; *s; ++s) {
        unsigned char c = (unsigned char)*s;
        if (c == '"' || c == '\\') { o += '\\'; o += (char)c; }
        else if (c < 0x20) { char b[8]; std::snprintf(b, sizeof b, "\\u%04x", c); o += b; }
        else o += (char)c;
    }
    return o;
}

template <typename T> struct RepName;
#define AUV_NM(T, s) template <> struct RepName<T> { static const char *get() { return s; } };
AUV_NM(int8_t, "i8") AUV_NM(uint8_t, "u8") AUV_NM(int16_t, "i16") AUV_NM(uint16_t, "u16")
AUV_NM(int32_t, "i32") AUV_NM(uint32_t, "u32") AUV_NM(int64_t, "i64") AUV_NM(uint64_t, "u64")
AUV_NM(float, "f32") AUV_NM(double, "f64") AUV_NM(long double, "f80")
template <typename T> const char *rep_name() { return RepName<T>::get(); }

// exact decomposition of a floating value: (-1)^s * m * 2^e with m odd (or cls zero/inf/nan)
template <typename F> std::string fwire(F x) {
    std::string sg = std::signbit(x) ? "1" : "0";
    if (std::isnan(x)) return "{\"cls\":\"nan\",\"s\":" + sg + "}";
    if (std::isinf(x)) return "{\"cls\":\"inf\",\"s\":" + sg + "}";
    if (x == 0) return "{\"cls\":\"zero\",\"s\":" + sg + "}";
    int ex;
    long double fr = std::frexp((long double)(x < 0 ? -x : x), &ex);
    const int p = 64;  // long double significand holds every supported format exactly
    unsigned long long m = (unsigned long long)std::ldexp(fr, p);
    int e = ex - p;
    while ((m & 1ULL) == 0 && m) { m >>= 1; ++e; }
    return "{\"cls\":\"fin\",\"s\":" + sg + ",\"m\":" + wire_u((u128)m, false) + ",\"e\":" + std::to_string(e) + "}";
}
template <typename T, bool IsFloat = std::is_floating_point<T>::value> struct AnyWire {
    static std::string get(T v) { return wire((i128)v); }
};
template <typename T> struct AnyWire<T, true> { static std::string get(T v) { return fwire(v); } };
template <typename T> std::string anywire(T v) { return AnyWire<T>::get(v); }

// splitmix64: the only random source, seeded from argv
struct Rng {
    uint64_t s;
    explicit Rng(uint64_t seed) : s(seed * 0x9E3779B97F4A7C15ULL + 0x1234567ULL) {}
    uint64_t next() {
        uint64_t z = (s += 0x9E3779B97F4A7C15ULL);
        z = (z ^ (z >> 30)) * 0xBF58476D1CE4E5B9ULL;
        z = (z ^ (z >> 27)) * 0x94D049BB133111EBULL;
        return z ^ (z >> 31);
    }
};

// Crash capture: the logger notes the public call in flight; a fatal signal raised inside the library (SIGFPE from a
// division by zero, SIGSEGV, SIGILL, abort) is logged as a record of kind "crash" instead of truncating the trace.
#include <csignal>
#include <unistd.h>
static char auv_inflight[512] = "";
// every noted call also (re)arms a watchdog: a library call that does not return within AUV_CALL_TIMEOUT seconds is logged as a
// "crash" record with signal 14 (SIGALRM) -- non-termination on a valid input is a finding, not a tool failure
#ifndef AUV_CALL_TIMEOUT
#define AUV_CALL_TIMEOUT 150
#endif
#define AUV_INFLIGHT(...) (std::snprintf(auv_inflight, sizeof auv_inflight, __VA_ARGS__), alarm(AUV_CALL_TIMEOUT))
static void auv_crash_handler(int sig) {
    char buf[700];
    int n = std::snprintf(buf, sizeof buf, "\n{\"k\":\"crash\",\"sig\":%d,\"inflight\":\"%s\"}\n", sig, auv_inflight);
    fflush(stdout);
    if (n > 0) { ssize_t w = write(1, buf, (size_t)n); (void)w; }
    _exit(0);
}
struct AuvCrashInit {
    AuvCrashInit() {
        std::signal(SIGFPE, auv_crash_handler); std::signal(SIGSEGV, auv_crash_handler);
        std::signal(SIGILL, auv_crash_handler); std::signal(SIGABRT, auv_crash_handler); std::signal(SIGBUS, auv_crash_handler);
        std::signal(SIGALRM, auv_crash_handler);
    }
};
static AuvCrashInit auv_crash_init_instance;

// UB flag set by harness/ubhandlers.cc (clang -fsanitize-minimal-runtime build); stays 0 otherwise
extern "C" { extern volatile int au_verif_ub_flag; }
