// C17: std::chrono::duration <-> Quantity.  Mixed duration/quantity operations reuse the record format of mixed_sweep.hh
// (operand 1 is the duration, seen as the quantity as_quantity(d)), plus chrono's own answer for the same operation.
#pragma once
#include "mixed_sweep.hh"
#include "au/units/seconds.hh"
#include "au/units/minutes.hh"
#include "au/units/hours.hh"
#include <chrono>
namespace auv {
template <uint64_t N, uint64_t D> using SU = decltype(Seconds{} * mag<N>() / mag<D>());   // an alias: the very unit type as_quantity() uses

template <typename Rep, intmax_t PN, intmax_t PD> long long chrono_roundtrip(uint64_t seed) {
    using Dur = std::chrono::duration<Rep, std::ratio<PN, PD>>;
    using Per = typename Dur::period;
    long long bad = 0;
    Rng rng(seed ^ (uint64_t)(PN * 31 + PD));
    Rep vals[] = {Rep(0), Rep(1), Rep(-1), std::numeric_limits<Rep>::max(), std::numeric_limits<Rep>::lowest(), Rep(1000), Rep(-86400), (Rep)rng.next(), (Rep)(rng.next() >> 13), (Rep)(rng.next() >> 40), Rep(0.5), Rep(-2.25)};
    for (Rep v : vals) {
        Dur d{v};
        auto q = as_quantity(d);
        static_assert(std::is_same<typename decltype(q)::Rep, Rep>::value, "as_quantity keeps the rep");
        constexpr bool unit_ok = (unit_ratio(typename decltype(q)::Unit{}, Seconds{}) == mag<(uint64_t)Per::num>() / mag<(uint64_t)Per::den>());
        bad += !unit_ok;
        bad += std::memcmp(&v, &q.data_in(typename decltype(q)::Unit{}), sizeof(Rep)) != 0;
        Dur back = q;                                   // implicit conversion back
        auto back2 = as_chrono_duration(q);
        using P2 = typename decltype(back2)::period;
        bad += !(std::is_same<typename decltype(back2)::rep, Rep>::value && P2::num == Per::num && P2::den == Per::den);
        Rep b1 = back.count(), b2 = back2.count();
        bad += std::memcmp(&v, &b1, sizeof(Rep)) != 0;
        bad += std::memcmp(&v, &b2, sizeof(Rep)) != 0;
        Quantity<typename decltype(q)::Unit, Rep> q2 = d;   // implicit acceptance by the corresponding quantity type
        bad += std::memcmp(&v, &q2.data_in(typename decltype(q)::Unit{}), sizeof(Rep)) != 0;
    }
    return bad;
}

template <typename Rep, intmax_t PN, intmax_t PD, typename R2, uint64_t N2, uint64_t D2>
struct ChronoInst {
    i128 k1, k2, lo, hi, plo, phi;
    long long swept = 0, mismatches = 0, logged = 0, nontrivial = 0;
    MOpts o; Rng rng;
    ChronoInst(const char *k1_, const char *k2_, const char *lo_, const char *hi_, const char *plo_, const char *phi_, const MOpts &o_)
        : k1(parse_i128(k1_)), k2(parse_i128(k2_)), lo(parse_i128(lo_)), hi(parse_i128(hi_)), plo(parse_i128(plo_)), phi(parse_i128(phi_)), o(o_), rng(o_.seed ^ (uint64_t)(PN * 7 + PD * 3 + N2 + D2)) {}
    void one(Rep x, R2 y, bool boundary) {
        using Dur = std::chrono::duration<Rep, std::ratio<PN, PD>>;
        using Dur2 = std::chrono::duration<R2, std::ratio<(intmax_t)N2, (intmax_t)D2>>;
        ++swept;
        AUV_INFLIGHT("chrono mixed ops Rep=%s Period=%lld/%lld R2=%s unit=%llu/%llu s x=%s y=%s", rep_name<Rep>(), (long long)PN, (long long)PD, rep_name<R2>(), (unsigned long long)N2, (unsigned long long)D2, dec((i128)x).c_str(), dec((i128)y).c_str());
        Dur d{x};
        auto q = make_quantity<SU<N2, D2>>(y);
        bool lt = d < q, le = d <= q, gt = d > q, ge = d >= q, eq = d == q, ne = d != q;
        bool flip_ok = ((q > d) == lt) && ((q >= d) == le) && ((q < d) == gt) && ((q <= d) == ge) && ((q == d) == eq) && ((q != d) == ne);
        auto s = d + q; auto df = d - q; auto s2 = q + d;
        i128 sum = (i128)s.in(decltype(s)::unit), dif = (i128)df.in(decltype(df)::unit);
        i128 e1 = 0, e2 = 0;
        bool f1 = MixedInst<Rep, 1, 1, R2, 1, 1, false>::mulfits((i128)x, k1, lo, hi, e1), f2 = MixedInst<Rep, 1, 1, R2, 1, 1, false>::mulfits((i128)y, k2, lo, hi, e2);
        bool cready = f1 && f2 && k1 <= hi && k2 <= hi;
        // chrono's own answers for the same operands
        Dur2 c{y};
        bool agree = true;
        if (cready) {
            agree = ((d < c) == lt) && ((d <= c) == le) && ((d > c) == gt) && ((d >= c) == ge) && ((d == c) == eq) && ((d != c) == ne);
            if (e1 + e2 >= plo && e1 + e2 <= phi && e1 + e2 >= lo && e1 + e2 <= hi) agree = agree && ((i128)(d + c).count() == sum);
            if (e1 - e2 >= plo && e1 - e2 <= phi && e1 - e2 >= lo && e1 - e2 <= hi) agree = agree && ((i128)(d - c).count() == dif);
        }
        bool bad = !flip_ok || !agree || !(s2 == s);
        if (cready) {
            bad = bad || (lt != (e1 < e2)) || (le != (e1 <= e2)) || (gt != (e1 > e2)) || (ge != (e1 >= e2)) || (eq != (e1 == e2)) || (ne != (e1 != e2));
            if (e1 + e2 >= plo && e1 + e2 <= phi && sum != e1 + e2) bad = true;
            if (e1 - e2 >= plo && e1 - e2 <= phi && dif != e1 - e2) bad = true;
        }
        if (boundary) ++nontrivial;
        bool lg = false; const char *why = "sample";
        if (bad) { ++mismatches; if (mismatches <= 30) { lg = true; why = (!flip_ok || !agree) ? "chrono-disagrees" : "mismatch"; } }
        else if (boundary) { lg = true; why = "boundary"; }
        else if ((rng.next() >> (64 - o.sample_shift)) == 0) lg = true;
        if (lg) {
            ++logged;
            std::printf("{\"k\":\"mixed\",\"why\":\"%s\",\"R1\":\"%s\",\"R2\":\"%s\",\"N1\":%s,\"D1\":%s,\"N2\":%s,\"D2\":%s,\"x\":%s,\"y\":%s,"
                        "\"lt\":%d,\"le\":%d,\"gt\":%d,\"ge\":%d,\"eq\":%d,\"ne\":%d,\"sum\":%s,\"dif\":%s,\"hasmod\":0,\"mod\":{\"s\":0,\"l\":[]},\"hasss\":0,\"ss\":0,\"ub\":0,\"cready\":%d,\"chrono_agree\":%d}\n",
                        why, rep_name<Rep>(), rep_name<R2>(), wire_u((u128)std::ratio<PN, PD>::num, false).c_str(), wire_u((u128)std::ratio<PN, PD>::den, false).c_str(), wire_u(N2, false).c_str(), wire_u(D2, false).c_str(),
                        wire((i128)x).c_str(), wire((i128)y).c_str(), lt, le, gt, ge, eq, ne, wire(sum).c_str(), wire(dif).c_str(), (int)cready, (int)(flip_ok && agree));
        }
    }
    void run() {
        const i128 l1 = (i128)std::numeric_limits<Rep>::lowest(), h1 = (i128)std::numeric_limits<Rep>::max();
        const i128 l2 = (i128)std::numeric_limits<R2>::lowest(), h2 = (i128)std::numeric_limits<R2>::max();
        for (int x = -60; x <= 60; ++x) for (int y = -60; y <= 60; ++y) one((Rep)x, (R2)y, ((i128)x * k1 == (i128)y * k2) || x == 0 || y == 0);
        std::vector<i128> bx = {l1, h1, hi / k1, hi / k1 + 1, lo / k1, lo / k1 - 1}, by = {l2, h2, hi / k2, hi / k2 + 1, lo / k2, lo / k2 - 1};
        for (i128 cx : bx) for (i128 cy : by) for (int dx = -1; dx <= 1; ++dx) for (int dy = -1; dy <= 1; ++dy) {
            i128 x = cx + dx, y = cy + dy;
            if (x < l1 || x > h1 || y < l2 || y > h2) continue;
            one((Rep)x, (R2)y, true);
        }
        for (int i = 0; i < o.nrandom; ++i) {
            Rep x = (Rep)((i128)(Rep)rng.next() >> (rng.next() % (8 * sizeof(Rep)))); R2 y = (R2)((i128)(R2)rng.next() >> (rng.next() % (8 * sizeof(R2))));
            if (i % 3 == 2 && k2 != 0) { i128 yy = ((i128)x * k1) / k2; if (yy >= l2 && yy <= h2) y = (R2)yy; }
            one(x, y, false);
        }
        std::printf("{\"k\":\"msum\",\"R1\":\"%s\",\"R2\":\"%s\",\"swept\":%lld,\"mismatches\":%lld,\"nontrivial\":%lld,\"logged\":%lld}\n", rep_name<Rep>(), rep_name<R2>(), swept, mismatches, nontrivial, logged);
    }
};
template <typename Rep, intmax_t PN, intmax_t PD, typename R2, uint64_t N2, uint64_t D2>
void chrono_mixed(const char *k1, const char *k2, const char *lo, const char *hi, const char *plo, const char *phi, const MOpts &o) {
    ChronoInst<Rep, PN, PD, R2, N2, D2>(k1, k2, lo, hi, plo, phi, o).run();
}
// a duration type the quantity type accepts implicitly: the conversion must be the corresponding quantity's own conversion, value for value
template <typename Rep, intmax_t PN, intmax_t PD, typename R2, uint64_t N2, uint64_t D2>
long long chrono_accept() {
    using D = std::chrono::duration<Rep, std::ratio<PN, PD>>;
    using Q = Quantity<SU<N2, D2>, R2>;
    const long double factor = ((long double)PN / (long double)PD) / ((long double)N2 / (long double)D2);
    long long bad = 0;
    const long double vals[] = {0, 1, -1, 3, 7, 100, 0.1L, 700000, 2147483647.0L, -2000000000.0L, 4000000000.0L};
    for (long double lv : vals) {
        if (lv < (long double)std::numeric_limits<Rep>::lowest() || lv > (long double)std::numeric_limits<Rep>::max()) continue;
        if (std::is_integral<R2>::value && std::fabs(lv * factor) > (long double)std::numeric_limits<R2>::max() / 2) continue;
        if (std::is_unsigned<R2>::value && lv < 0) continue;
        Rep v = (Rep)lv;
        D d{v};
        AUV_INFLIGHT("implicit duration->quantity R=%s", rep_name<Rep>());
        Q q = d;                        // implicit, from the duration
        Q q2 = as_quantity(d);          // implicit, from the corresponding quantity
        R2 a = q.in(SU<N2, D2>{}), b = q2.in(SU<N2, D2>{});
        if (std::memcmp(&a, &b, sizeof(R2) > 10 ? 10 : sizeof(R2)) != 0) {
            ++bad;
            if (bad <= 3) std::printf("{\"k\":\"accmis\",\"Rep\":\"%s\",\"P\":\"%lld/%lld\",\"R2\":\"%s\",\"U\":\"%llu/%llu\",\"v\":%s,\"from_duration\":%s,\"from_quantity\":%s}\n", rep_name<Rep>(), (long long)PN, (long long)PD,
                                  rep_name<R2>(), (unsigned long long)N2, (unsigned long long)D2, fwire((long double)v).c_str(), fwire((long double)a).c_str(), fwire((long double)b).c_str());
        }
    }
    return bad;
}
}  // namespace auv
