// C16: constants -- availability (can_store_value_in) and values of C.in<T>(u), C.as<T>(u), implicit conversion, per arithmetic type,
// together with the exact ratio C/u as a prime-power pack for TLC; and the "changes only the unit" mixin operations.
#pragma once
#include "unit_readout.hh"
#include <cstring>
namespace auv {
using namespace au;
template <bool Ok> struct ConstGet {
    template <typename T, typename C, typename U> static void get(C c, U u, T &vin, T &vas, T &vimp) {
        vin = c.template in<T>(u);
        vas = c.template as<T>(u).in(u);
        Quantity<AssociatedUnitT<U>, T> q = c;
        vimp = q.in(u);
    }
};
template <> struct ConstGet<false> { template <typename T, typename C, typename U> static void get(C, U, T &, T &, T &) {} };
template <typename T, typename C, typename U> void const_one(const char *id, C c, U u, const std::string &ratio, bool isint, bool israt) {
    constexpr bool ok = C::template can_store_value_in<T>(U{});
    T vin = T(0), vas = T(0), vimp = T(0);
    ConstGet<ok>::template get<T>(c, u, vin, vas, vimp);
    bool same = std::memcmp(&vin, &vas, sizeof(T) > 10 ? 10 : sizeof(T)) == 0 && std::memcmp(&vin, &vimp, sizeof(T) > 10 ? 10 : sizeof(T)) == 0;
    std::printf("{\"k\":\"mag\",\"id\":\"%s\",\"T\":\"%s\",\"mag\":%s,\"rep\":%d,\"isint\":%d,\"israt\":%d,\"forms_same\":%d,\"%s\":%s,\"%s\":%s}\n", id, rep_name<T>(), ratio.c_str(), (int)ok,
                (int)isint, (int)israt, (int)same, std::is_floating_point<T>::value ? "fval" : "ival", anywire(vin).c_str(),
                std::is_floating_point<T>::value ? "ival" : "fval", std::is_floating_point<T>::value ? "{\"s\":0,\"l\":[]}" : "{\"cls\":\"zero\",\"s\":0,\"m\":{\"s\":0,\"l\":[]},\"e\":0}");
}
// magnitude pack with n/d exponents in the factor-list format of MagBig.tla
template <typename P> struct FactorsJson;
template <> struct FactorsJson<Magnitude<>> { static std::string get() { return ""; } };
template <typename BP, typename... R> struct FactorsJson<Magnitude<BP, R...>> {
    static std::string get() {
        std::string t = "{\"b\":" + MagBaseJson<BaseT<BP>>::get() + ",\"n\":" + std::to_string((long long)ExpT<BP>::num) + ",\"d\":" + std::to_string((long long)ExpT<BP>::den) + "}";
        std::string rest = FactorsJson<Magnitude<R...>>::get();
        return rest.empty() ? t : t + "," + rest;
    }
};
template <typename C, typename U> void const_all(const char *id, C c, U u) {
    using Ratio = decltype(unit_ratio(AssociatedUnitT<C>{}, AssociatedUnitT<U>{}));
    std::string ratio = "[" + FactorsJson<Ratio>::get() + "]";
    constexpr bool isint = is_integer(Ratio{}), israt = is_rational(Ratio{});
    const_one<int8_t>(id, c, u, ratio, isint, israt); const_one<uint8_t>(id, c, u, ratio, isint, israt); const_one<int16_t>(id, c, u, ratio, isint, israt);
    const_one<uint16_t>(id, c, u, ratio, isint, israt); const_one<int32_t>(id, c, u, ratio, isint, israt); const_one<uint32_t>(id, c, u, ratio, isint, israt);
    const_one<int64_t>(id, c, u, ratio, isint, israt); const_one<uint64_t>(id, c, u, ratio, isint, israt);
    const_one<float>(id, c, u, ratio, isint, israt); const_one<double>(id, c, u, ratio, isint, israt); const_one<long double>(id, c, u, ratio, isint, israt);
}
// "changes only the unit, never the stored number"
template <typename A> bool bits_eq(A a, A b) { return std::memcmp(&a, &b, sizeof(A) > 10 && std::is_floating_point<A>::value ? 10 : sizeof(A)) == 0; }
template <typename A, typename B> bool bits_eq(A, B) { return false; }
// constant / number and constant / quantity exist for floating reps only: the stored number is exactly 1 / x in x's own type
template <bool Floating> struct ConstOverOps {
    template <typename C, typename T> static int number(C c, T x) {
        using U = AssociatedUnitT<C>;
        auto e = c / x;
        return !bits_eq(e.in(U{}), T(1) / x) + !std::is_same<typename decltype(e)::Rep, T>::value + !std::is_same<typename decltype(e)::Unit, U>::value;
    }
    template <typename C, typename Q> static int quantity(C c, Q q) {
        using U = AssociatedUnitT<C>; using QU = typename Q::Unit; using R = typename Q::Rep;
        auto e = c / q;
        return !bits_eq(e.in(typename decltype(e)::Unit{}), R(1) / q.in(QU{})) + !std::is_same<typename decltype(e)::Rep, R>::value +
               !are_units_quantity_equivalent(typename decltype(e)::Unit{}, UnitQuotientT<U, QU>{});
    }
};
template <> struct ConstOverOps<false> {
    template <typename C, typename T> static int number(C, T) { return 0; }
    template <typename C, typename Q> static int quantity(C, Q) { return 0; }
};
template <typename C, typename T> int mixin_number(C c, T x) {
    using U = AssociatedUnitT<C>;
    int bad = 0;
    auto a = x * c; auto b = c * x; auto d = x / c;
    bad += !bits_eq(a.in(U{}), x) + !bits_eq(b.in(U{}), x) + !bits_eq(d.in(UnitInverseT<U>{}), x);
    bad += !std::is_same<typename decltype(a)::Unit, U>::value + !std::is_same<typename decltype(d)::Unit, UnitInverseT<U>>::value;
    bad += !std::is_same<typename decltype(a)::Rep, T>::value + !std::is_same<typename decltype(b)::Rep, T>::value + !std::is_same<typename decltype(d)::Rep, T>::value;
    bad += ConstOverOps<std::is_floating_point<T>::value>::number(c, x);
    return bad;
}
template <typename C, typename Q> int mixin_quantity(C c, Q q) {
    using U = AssociatedUnitT<C>; using QU = typename Q::Unit;
    int bad = 0;
    auto a = q * c; auto b = c * q; auto d = q / c;
    bad += !bits_eq(a.in(typename decltype(a)::Unit{}), q.in(QU{})) + !bits_eq(b.in(typename decltype(b)::Unit{}), q.in(QU{})) + !bits_eq(d.in(typename decltype(d)::Unit{}), q.in(QU{}));
    bad += !are_units_quantity_equivalent(typename decltype(a)::Unit{}, UnitProductT<QU, U>{}) + !are_units_quantity_equivalent(typename decltype(d)::Unit{}, UnitQuotientT<QU, U>{});
    using R = typename Q::Rep;
    bad += !std::is_same<typename decltype(a)::Rep, R>::value + !std::is_same<typename decltype(b)::Rep, R>::value + !std::is_same<typename decltype(d)::Rep, R>::value;
    bad += ConstOverOps<std::is_floating_point<R>::value>::quantity(c, q);
    return bad;
}
}  // namespace auv
