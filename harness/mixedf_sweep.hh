// C08, floating clause: mixed-unit comparison / + / - where the common rep is a floating type.  No comparator here: every record is
// judged by TLC (QuantityF.tla) from the raw operands with exact dyadic arithmetic.
#pragma once
#include "mixed_sweep.hh"
#include <cmath>
namespace auv {
template <typename R, bool F = std::is_floating_point<R>::value> struct FVals {
    static std::vector<R> get(Rng &rng, int nrandom) {      // integral operand next to a floating one
        std::vector<R> v;
        for (int x = -12; x <= 12; ++x) if (x >= 0 || std::is_signed<R>::value) v.push_back((R)x);
        long long pts[] = {100, 127, 1000, 4096, 65535, 1000000, 16777216, 16777217, 2147483647LL, 9007199254740993LL, 4611686018427387905LL};
        for (long long p : pts) if ((long double)p <= (long double)std::numeric_limits<R>::max()) { v.push_back((R)p); if (std::is_signed<R>::value) v.push_back((R)-p); }
        for (int i = 0; i < nrandom / 8; ++i) v.push_back((R)((i128)(R)rng.next() >> (rng.next() % (8 * sizeof(R) - 1))));
        return v;
    }
};
template <typename R> struct FVals<R, true> {
    static std::vector<R> get(Rng &rng, int nrandom) {
        std::vector<R> v;
        for (int x = -12; x <= 12; ++x) v.push_back((R)x);
        R sp[] = {R(0.5), R(-0.5), R(0.1), R(1) / R(3), R(2.54), R(1e-3), R(1e3), R(123456.789), R(-7.25), R(1e-6), R(65536), R(16777216), R(16777217), -R(0), R(299792458.0), R(6.02214076e23), R(1.5e-10)};
        for (R x : sp) v.push_back(x);
        for (int i = 0; i < nrandom / 8; ++i) {
            R x = (R)std::ldexp((long double)(rng.next() >> 11) / 9007199254740992.0L + 0.5L, (int)(rng.next() % 80) - 30);
            v.push_back((rng.next() & 1) ? x : -x);
        }
        return v;
    }
};
template <typename R1, uint64_t N1, uint64_t D1, typename R2, uint64_t N2, uint64_t D2>
void mixedf(const char *k1s, const char *k2s, const MOpts &o) {
    Rng rng(o.seed ^ (N1 * 31 + D1 * 17 + N2 * 13 + D2 * 7) ^ (sizeof(R1) * 101 + sizeof(R2)));
    const long double k1 = (long double)parse_i128(k1s), k2 = (long double)parse_i128(k2s);
    const int nr = o.nrandom > 4000 ? 4000 : o.nrandom;          // every pair is logged and judged by TLC: keep the grid in the hundreds
    std::vector<R1> xs = FVals<R1>::get(rng, nr / 10);
    std::vector<R2> ys = FVals<R2>::get(rng, nr / 10);
    long long n = 0, logged = 0;
    auto one = [&](R1 x, R2 y, const char *why) {
        ++n;
        AUV_INFLIGHT("mixed-unit float ops R1=%s R2=%s", rep_name<R1>(), rep_name<R2>());
        auto a = make_quantity<MU<N1, D1>>(x);
        auto b = make_quantity<MU<N2, D2>>(y);
        bool lt = a < b, le = a <= b, gt = a > b, ge = a >= b, eq = a == b, ne = a != b;
        auto s = a + b; auto d = a - b;
        using RC = typename decltype(s)::Rep;
        ++logged;
        std::printf("{\"k\":\"mixedf\",\"why\":\"%s\",\"R1\":\"%s\",\"R2\":\"%s\",\"RC\":\"%s\",\"N1\":%s,\"D1\":%s,\"N2\":%s,\"D2\":%s,\"x\":%s,\"y\":%s,"
                    "\"lt\":%d,\"le\":%d,\"gt\":%d,\"ge\":%d,\"eq\":%d,\"ne\":%d,\"sum\":%s,\"dif\":%s}\n",
                    why, rep_name<R1>(), rep_name<R2>(), rep_name<RC>(), wire_u(N1, false).c_str(), wire_u(D1, false).c_str(), wire_u(N2, false).c_str(), wire_u(D2, false).c_str(),
                    anywire(x).c_str(), anywire(y).c_str(), lt, le, gt, ge, eq, ne, fwire(s.in(decltype(s)::unit)).c_str(), fwire(d.in(decltype(d)::unit)).c_str());
    };
    // grid of simple values (products are exact: the comparison must be the exact order even for equal operands)
    for (size_t i = 0; i < xs.size(); ++i) for (size_t j = 0; j < ys.size(); ++j) if ((i * 7 + j * 3 + o.seed) % 19 == 0 || (long double)xs[i] * k1 == (long double)ys[j] * k2) one(xs[i], ys[j], "grid");
    // near-equal operands: y = x * k1 / k2 and its neighbours
    for (size_t i = 0; i < xs.size(); ++i) {
        long double t = (long double)xs[i] * k1 / k2;
        if (!(std::fabs(t) < (long double)std::numeric_limits<R2>::max() / 4)) continue;
        R2 y0 = (R2)t;
        one(xs[i], y0, "near");
        if (std::is_floating_point<R2>::value) { one(xs[i], (R2)std::nextafter((double)y0, 1e300), "near"); one(xs[i], (R2)(y0 * (R2)1.0001), "near"); }
        else { if ((long double)y0 + 1 <= (long double)std::numeric_limits<R2>::max()) one(xs[i], (R2)(y0 + 1), "near"); }
    }
    std::printf("{\"k\":\"msum\",\"R1\":\"%s\",\"R2\":\"%s\",\"swept\":%lld,\"mismatches\":0,\"nontrivial\":%lld,\"logged\":%lld}\n", rep_name<R1>(), rep_name<R2>(), n, n, logged);
}
}  // namespace auv
