// C12: primality, factor finding and modular helpers of au/utility on 64-bit inputs.
#include "au/utility/factoring.hh"
#include "au/utility/mod.hh"
#include "au/utility/probable_primes.hh"
#include "wire.hh"
#include <fstream>
#include <vector>
using namespace au::detail;
static std::string W(uint64_t v) { return wire_u((u128)v, false); }
int main(int argc, char **argv) {
    uint64_t limit = argc > 1 ? std::strtoull(argv[1], nullptr, 10) : (1u << 20);
    uint64_t seed = argc > 2 ? std::strtoull(argv[2], nullptr, 10) : 1;
    const char *advfile = argc > 3 ? argv[3] : nullptr;
    int nhelper = argc > 4 ? std::atoi(argv[4]) : 4000;
    // (i) every n below the limit against a sieve (comparator); all disagreements and a sample go to TLC
    std::vector<unsigned char> comp(limit, 0);
    std::vector<uint32_t> spf(limit, 0);
    for (uint64_t i = 2; i < limit; ++i) if (!spf[i]) for (uint64_t j = i; j < limit; j += i) if (!spf[j]) spf[j] = (uint32_t)i;
    long long mism = 0;
    for (uint64_t n = 2; n < limit; ++n) {
        AUV_INFLIGHT("is_prime/find_prime_factor n=%llu", (unsigned long long)n);
        bool ip = is_prime(n);
        uint64_t f = find_prime_factor(n);
        bool sp = spf[n] == n;
        bool bad = (ip != sp) || f < 2 || n % f != 0 || spf[f] != f;
        if (bad) ++mism;
        if ((bad && mism <= 50) || n < 4096 || (n * 2654435761u) % 509 == 0)
            std::printf("{\"k\":\"small\",\"n\":%llu,\"isp\":%d,\"factor\":%llu,\"why\":\"%s\"}\n", (unsigned long long)n, (int)ip, (unsigned long long)f, bad ? "mismatch" : "sample");
    }
    std::printf("{\"k\":\"ntsum\",\"what\":\"sieve\",\"n\":%llu,\"mismatches\":%lld}\n", (unsigned long long)(limit - 2), mism);
    // (ii) adversarial 64-bit numbers, one decimal per line
    if (advfile) {
        std::ifstream in(advfile);
        std::string line;
        while (std::getline(in, line)) {
            if (line.empty()) continue;
            uint64_t n = std::strtoull(line.c_str(), nullptr, 10);
            AUV_INFLIGHT("is_prime/find_prime_factor n=%llu", (unsigned long long)n);
            bool ip = is_prime(n);
            uint64_t f = find_prime_factor(n);
            std::printf("{\"k\":\"adv\",\"n\":\"%s\",\"isp\":%d,\"factor\":%s}\n", line.c_str(), (int)ip, W(f).c_str());
        }
    }
    // (iii)+(iv) modular helpers on random 64-bit operands incl. moduli above 2^63; unsigned wrap-around inside the call is flagged
    Rng rng(seed);
    for (int i = 0; i < nhelper; ++i) {
        uint64_t n = rng.next();
        if (i % 2) n |= 1ULL << 63;
        if (i % 7 == 0) n >>= (rng.next() % 60);
        if (n < 3) n = 3;
        uint64_t a = rng.next() % n, b = rng.next() % n;
        if (i % 11 == 0) { a = n - 1; b = n - 1; }
        if (i % 13 == 0) b = 0;
        AUV_INFLIGHT("modular helpers a=%llu b=%llu n=%llu", (unsigned long long)a, (unsigned long long)b, (unsigned long long)n);
        au_verif_ub_flag = 0; uint64_t r = mul_mod(a, b, n); int wf = au_verif_ub_flag;
        u128 q = ((u128)a * b) / n;
        std::printf("{\"k\":\"mul\",\"a\":%s,\"b\":%s,\"n\":%s,\"r\":%s,\"q\":%s,\"wrap\":%d}\n", W(a).c_str(), W(b).c_str(), W(n).c_str(), W(r).c_str(), W((uint64_t)q).c_str(), wf);
        au_verif_ub_flag = 0; r = add_mod(a, b, n); wf = au_verif_ub_flag;
        std::printf("{\"k\":\"add\",\"a\":%s,\"b\":%s,\"n\":%s,\"r\":%s,\"wrap\":%d}\n", W(a).c_str(), W(b).c_str(), W(n).c_str(), W(r).c_str(), wf);
        au_verif_ub_flag = 0; r = sub_mod(a, b, n); wf = au_verif_ub_flag;
        std::printf("{\"k\":\"sub\",\"a\":%s,\"b\":%s,\"n\":%s,\"r\":%s,\"wrap\":%d}\n", W(a).c_str(), W(b).c_str(), W(n).c_str(), W(r).c_str(), wf);
        uint64_t no = n | 1; uint64_t ao = a % no;
        au_verif_ub_flag = 0; r = half_mod_odd(ao, no); wf = au_verif_ub_flag;
        std::printf("{\"k\":\"half\",\"a\":%s,\"n\":%s,\"r\":%s,\"wrap\":%d}\n", W(ao).c_str(), W(no).c_str(), W(r).c_str(), wf);
        if (i % 16 == 0) {
            au_verif_ub_flag = 0; r = pow_mod(a, b, n); wf = au_verif_ub_flag;
            std::printf("{\"k\":\"pow\",\"a\":%s,\"b\":%s,\"n\":%s,\"r\":%s,\"wrap\":%d}\n", W(a).c_str(), W(b).c_str(), W(n).c_str(), W(r).c_str(), wf);
            // the power helper reduces its base itself: any 64-bit base, also many times the modulus
            uint64_t nb = (rng.next() >> (24 + rng.next() % 36)) | 3, base = rng.next(), ex = rng.next() >> (rng.next() % 60 + 1);
            if (i % 32 == 0) base = nb * 2 + (rng.next() % nb);
            AUV_INFLIGHT("pow_mod base=%llu exp=%llu n=%llu", (unsigned long long)base, (unsigned long long)ex, (unsigned long long)nb);
            au_verif_ub_flag = 0; r = pow_mod(base, ex, nb); wf = au_verif_ub_flag;
            std::printf("{\"k\":\"pow\",\"a\":%s,\"b\":%s,\"n\":%s,\"r\":%s,\"wrap\":%d}\n", W(base).c_str(), W(ex).c_str(), W(nb).c_str(), W(r).c_str(), wf);
        }
    }
    return 0;
}
