// Contract sweep for same-rep conversions (C03/C04; DESIGN 5.7).
// The comparator knows nothing about the library: it compares the library's answers with the
// closed-form contract <lo, hi, mod> that TLC computed for this (T, N, D) instance, counts, and logs
// every disagreement plus boundary points and a seeded sample (with its own expectation, so that TLC
// re-derives both the library's and the comparator's verdict from the raw inputs).
#pragma once
#include "au/au.hh"
#include "au/units/meters.hh"
#include "wire.hh"
#include <set>
#include <vector>

namespace auv {
using namespace au;

struct Opts {
    uint64_t seed = 1;
    int nrandom = 1 << 12;     // random values per wide instance
    int nbhd = 48;             // half-width of boundary neighbourhoods
    int sample_shift = 9;      // 1-in-2^k agreements are logged
    bool full32 = false;       // sweep all 2^32 values of 32-bit reps
};
inline Opts parse_opts(int argc, char **argv) {
    Opts o;
    for (int i = 1; i + 1 < argc; i += 2) {
        std::string k = argv[i];
        long long v = std::atoll(argv[i + 1]);
        if (k == "--seed") o.seed = (uint64_t)v;
        if (k == "--nrandom") o.nrandom = (int)v;
        if (k == "--nbhd") o.nbhd = (int)v;
        if (k == "--sample-shift") o.sample_shift = (int)v;
        if (k == "--full32") o.full32 = v != 0;
    }
    return o;
}

template <uint64_t N, uint64_t D>
struct ScaledMeters : decltype(Meters{} * mag<N>() / mag<D>()) {};

template <bool WithIn> struct ImplicitIn {
    template <typename Q> static typename Q::Rep get(Q q) { return q.in(meters); }
};
template <> struct ImplicitIn<false> {
    template <typename Q> static typename Q::Rep get(Q) { return 0; }
};

template <typename T, uint64_t N, uint64_t D, bool WithIn>
struct Inst {
    i128 lo, hi, mod;
    long long swept = 0, mismatches = 0, cleared_mismatches = 0, nontrivial = 0, logged = 0;
    int ubchk = 0;
    Opts o;
    Rng rng;
    Inst(const char *lo_, const char *hi_, const char *mod_, const Opts &o_)
        : lo(parse_i128(lo_)), hi(parse_i128(hi_)), mod(parse_i128(mod_)), o(o_),
          rng(o_.seed ^ (N * 1000003ULL) ^ (D * 998244353ULL) ^ sizeof(T)) {}

    void log(const char *why, T x, bool ov, bool tr, bool lo_, bool hasres, T res, int ub, bool hasin, T inres, T asres, bool covf, bool ctrunc) {
        ++logged;
        std::printf("{\"k\":\"conv\",\"why\":\"%s\",\"T\":\"%s\",\"N\":%s,\"D\":%s,\"x\":%s,\"ovf\":%d,\"trunc\":%d,\"lossy\":%d,"
                    "\"hasres\":%d,\"res\":%s,\"ub\":%d,\"hasin\":%d,\"inres\":%s,\"asres\":%s,\"covf\":%d,\"ctrunc\":%d,\"ubchk\":%d}\n",
                    why, rep_name<T>(), wire_u((u128)N, false).c_str(), wire_u((u128)D, false).c_str(), wire((i128)x).c_str(),
                    (int)ov, (int)tr, (int)lo_, (int)hasres, wire((i128)res).c_str(), ub, (int)hasin, wire((i128)inres).c_str(), wire((i128)asres).c_str(),
                    (int)covf, (int)ctrunc, ubchk);
    }

    void one(T x, bool boundary) {
        ++swept;
        AUV_INFLIGHT("same-rep conversion/checkers T=%s N=%s D=%s x=%s", rep_name<T>(), dec((i128)(u128)N).c_str(), dec((i128)(u128)D).c_str(), dec((i128)x).c_str());
        auto q = make_quantity<ScaledMeters<N, D>>(x);
        au_verif_ub_flag = 0;
        bool ov = will_conversion_overflow(q, meters);
        bool tr = will_conversion_truncate(q, meters);
        bool lossy = is_conversion_lossy(q, meters);
        ubchk = au_verif_ub_flag;
        T res = 0, inres = 0, asres = 0;
        int ub = 0;
        bool hasres = !lossy, hasin = false;
        if (!lossy) {
            au_verif_ub_flag = 0;
            res = q.coerce_in(meters);
            asres = q.coerce_as(meters).in(meters);
            if (WithIn) { inres = ImplicitIn<WithIn>::get(q); hasin = true; }
            ub = au_verif_ub_flag;
        }
        // comparator (contract only)
        i128 xi = (i128)x;
        bool covf = xi < lo || xi > hi;
        bool ctrunc = (xi % mod) != 0;
        bool bad = (ov != covf) || (tr != ctrunc) || (lossy != (covf || ctrunc));
        if (!bad && !lossy) {
            // exact value: mod | x and no overflow, so (x / mod) * N fits
            bool neg = xi < 0;
            u128 a = neg ? (u128)(-xi) : (u128)xi;
            u128 v = (a / (u128)mod) * (u128)N;
            i128 expect = neg ? -(i128)v : (i128)v;
            if ((i128)res != expect || (i128)asres != expect || ub != 0 || (hasin && (i128)inres != expect)) bad = true;
        }
        bool nt = boundary;
        if (nt) ++nontrivial;
        if (bad) {
            ++mismatches;
            // mismatches in which the library cleared the conversion (the C03 side) have their own budget: they must not be crowded
            // out by the usually much larger number of checker-only disagreements
            if (!lossy) ++cleared_mismatches;
            if (mismatches <= 40 || (!lossy && cleared_mismatches <= 40)) log("mismatch", x, ov, tr, lossy, hasres, res, ub, hasin, inres, asres, covf, ctrunc);
        } else if (boundary) {
            log("boundary", x, ov, tr, lossy, hasres, res, ub, hasin, inres, asres, covf, ctrunc);
        } else if ((rng.next() >> (64 - o.sample_shift)) == 0) {
            log("sample", x, ov, tr, lossy, hasres, res, ub, hasin, inres, asres, covf, ctrunc);
        }
    }

    void run() {
        typedef std::numeric_limits<T> L;
        const i128 tmin = (i128)L::lowest(), tmax = (i128)L::max();
        std::set<i128> bpts;   // boundary points: logged always
        const i128 cand[] = {lo - 1, lo, lo + 1, hi - 1, hi, hi + 1, 0, 1, -1, mod, -mod, mod + 1, mod - 1, tmin, tmax, tmin + 1, tmax - 1,
                             (hi / mod) * mod, (hi / mod) * mod + mod, (lo / mod) * mod, (lo / mod) * mod - mod};
        for (i128 c : cand) if (c >= tmin && c <= tmax) bpts.insert(c);
        if (sizeof(T) <= 2 || (sizeof(T) == 4 && o.full32)) {
            for (i128 v = tmin; v <= tmax; ++v) one((T)v, bpts.count(v) != 0);
        } else {
            std::set<i128> pts;
            for (i128 c : bpts) for (int dlt = -o.nbhd; dlt <= o.nbhd; ++dlt) { i128 v = c + dlt; if (v >= tmin && v <= tmax) pts.insert(v); }
            for (i128 v : pts) one((T)v, bpts.count(v) != 0);
            for (int i = 0; i < o.nrandom; ++i) {
                uint64_t r = rng.next();
                T v = (T)r;
                if (i % 4 == 1) {  // exact multiples of the modulus, in range when possible
                    i128 span = hi - lo + 1; if (span <= 0) span = 1;
                    i128 m = lo + (i128)((u128)r % (u128)span);
                    m = (m / mod) * mod;
                    if (m >= tmin && m <= tmax) v = (T)m;
                } else if (i % 4 == 2) {  // shrink to a random bit length
                    int sh = (int)(rng.next() % (8 * sizeof(T)));
                    v = (T)((i128)(T)r >> sh);
                }
                one(v, false);
            }
        }
        std::printf("{\"k\":\"sum\",\"T\":\"%s\",\"N\":\"%s\",\"D\":\"%s\",\"swept\":%lld,\"mismatches\":%lld,\"nontrivial\":%lld,\"logged\":%lld}\n",
                    rep_name<T>(), dec((i128)(u128)N).c_str(), dec((i128)(u128)D).c_str(), swept, mismatches, nontrivial, logged);
    }
};

template <typename T, uint64_t N, uint64_t D, bool WithIn>
void sweep(const char *lo, const char *hi, const char *mod, const Opts &o) {
    Inst<T, N, D, WithIn> inst(lo, hi, mod, o);
    inst.run();
}
}  // namespace auv
