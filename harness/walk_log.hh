// Walks: after every step of a generated straight-line program, log the static type (rep, unit magnitude) and the stored value.
#pragma once
#include "unit_readout.hh"
#include "au/units/meters.hh"
#include "au/units/inches.hh"
#include "au/units/feet.hh"
#include "au/units/yards.hh"
#include "au/units/miles.hh"
#include "au/prefix.hh"
namespace auv {
using namespace au;
template <typename Q> void wlog(int walk, int step, Q q) {
    using U = typename Q::Unit; using R = typename Q::Rep;
    std::printf("{\"k\":\"wstep\",\"w\":%d,\"i\":%d,\"obs\":{\"rep\":\"%s\",\"mag\":%s,\"v\":%s}}\n", walk, step, rep_name<R>(), unit_mag_json<U>().c_str(), wire((i128)q.in(U{})).c_str());
}
template <typename Q> void wlogc(int walk, int step, Q q, bool lt, bool eq, bool gt) {
    using U = typename Q::Unit; using R = typename Q::Rep;
    std::printf("{\"k\":\"wstep\",\"w\":%d,\"i\":%d,\"obs\":{\"rep\":\"%s\",\"mag\":%s,\"v\":%s,\"lt\":%d,\"eq\":%d,\"gt\":%d}}\n", walk, step, rep_name<R>(), unit_mag_json<U>().c_str(),
                wire((i128)q.in(U{})).c_str(), (int)lt, (int)eq, (int)gt);
}
}  // namespace auv
