// Values of permitted implicit conversions into integral reps (C06 consequence clause).
#pragma once
#include "au/au.hh"
#include "au/units/meters.hh"
#include "wire.hh"
namespace auv {
using namespace au;
template <typename R1, typename R2, uint64_t K>
void implicit_values() {
    using U1 = decltype(Meters{} * mag<K>());
    long long n = 0, mism = 0;
    const i128 lo1 = (i128)std::numeric_limits<R1>::lowest(), hi1 = (i128)std::numeric_limits<R1>::max();
    const i128 lo2 = (i128)std::numeric_limits<R2>::lowest(), hi2 = (i128)std::numeric_limits<R2>::max();
    for (int v = -2147; v <= 2147; ++v) {
        if ((i128)v < lo1 || (i128)v > hi1) continue;
        if ((i128)v < lo2 || (i128)v > hi2) continue;   // "any value of magnitude up to 2147 that R2 can hold"
        ++n;
        Quantity<U1, R1> q1 = make_quantity<U1>((R1)v);
        au_verif_ub_flag = 0;
        Quantity<Meters, R2> q2 = q1;   // the implicit conversion under test
        int ub = au_verif_ub_flag;
        R2 res = q2.in(meters);
        i128 expect = (i128)v * (i128)K;
        bool bad = ((i128)res != expect) || ub;
        if (bad) ++mism;
        if ((bad && mism <= 20) || v == -2147 || v == 2147 || v == 0 || v == 1 || v == -1 || v % 613 == 0)
            std::printf("{\"k\":\"pv\",\"R1\":\"%s\",\"R2\":\"%s\",\"N\":%s,\"x\":%s,\"res\":%s,\"ub\":%d,\"cexp\":%s}\n", rep_name<R1>(), rep_name<R2>(),
                        wire_u((u128)K, false).c_str(), wire((i128)v).c_str(), wire((i128)res).c_str(), ub, wire(expect).c_str());
    }
    std::printf("{\"k\":\"pvsum\",\"R1\":\"%s\",\"R2\":\"%s\",\"K\":\"%s\",\"n\":%lld,\"mismatches\":%lld}\n", rep_name<R1>(), rep_name<R2>(),
                dec((i128)(u128)K).c_str(), n, mism);
}
}  // namespace auv
