// C08: mixed-unit comparison / + / - / % / <=> of integral quantities against the TLC-computed contract <k1, k2, common rep range>.
#pragma once
#include "au/au.hh"
#include "au/units/meters.hh"
#include "wire.hh"
#include <set>
#include <vector>
namespace auv {
using namespace au;
struct MOpts { uint64_t seed = 1; int nrandom = 2000; int sample_shift = 10; int window = 128; };
inline MOpts parse_mopts(int argc, char **argv) {
    MOpts o;
    for (int i = 1; i + 1 < argc; i += 2) {
        std::string k = argv[i]; long long v = std::atoll(argv[i + 1]);
        if (k == "--seed") o.seed = (uint64_t)v;
        if (k == "--nrandom") o.nrandom = (int)v;
        if (k == "--sample-shift") o.sample_shift = (int)v;
        if (k == "--window") o.window = (int)v;
    }
    return o;
}
template <uint64_t N, uint64_t D> struct MU : decltype(Meters{} * mag<N>() / mag<D>()) {};

template <bool On> struct ModOp {
    template <typename A, typename B> static i128 get(A a, B b) { auto r = a % b; return (i128)r.in(decltype(r)::unit); }
};
template <> struct ModOp<false> { template <typename A, typename B> static i128 get(A, B) { return 0; } };
#if defined(__cpp_impl_three_way_comparison) && __cpp_impl_three_way_comparison >= 201907L
template <bool On> struct SsOp {
    template <typename A, typename B> static int get(A a, B b) { auto c = (a <=> b); return c < 0 ? -1 : (c > 0 ? 1 : 0); }
};
template <> struct SsOp<false> { template <typename A, typename B> static int get(A, B) { return 0; } };
constexpr bool kHasSpaceship = true;
#else
template <bool On> struct SsOp { template <typename A, typename B> static int get(A, B) { return 0; } };
constexpr bool kHasSpaceship = false;
#endif

template <typename R1, uint64_t N1, uint64_t D1, typename R2, uint64_t N2, uint64_t D2, bool Own>
struct MixedInst {
    i128 k1, k2, lo, hi, plo, phi;
    long long swept = 0, mismatches = 0, nontrivial = 0, logged = 0;
    MOpts o; Rng rng;
    MixedInst(const char *k1_, const char *k2_, const char *lo_, const char *hi_, const char *plo_, const char *phi_, const MOpts &o_)
        : k1(parse_i128(k1_)), k2(parse_i128(k2_)), lo(parse_i128(lo_)), hi(parse_i128(hi_)), plo(parse_i128(plo_)), phi(parse_i128(phi_)), o(o_),
          rng(o_.seed ^ (N1 * 31 + D1 * 17 + N2 * 13 + D2 * 7) ^ (sizeof(R1) * 101 + sizeof(R2))) {}
  public:
    static bool fits(i128 v, i128 l, i128 h) { return v >= l && v <= h; }
    // overflow-safe product test: x * k within [l, h]?  (|x| < 2^64, 0 < k < 2^64, so the product fits unsigned 128 bits)
    static bool mulfits(i128 x, i128 k, i128 l, i128 h, i128 &out) {
        if (x == 0) { out = 0; return l <= 0 && 0 <= h; }
        if (k >= ((i128)1 << 64)) return false;
        u128 ux = x > 0 ? (u128)x : (u128)(-x);
        u128 prod = ux * (u128)k;
        if (x > 0) { if (h < 0 || prod > (u128)h) return false; out = (i128)prod; return out >= l; }
        if (l > 0) return false;
        u128 negbound = (u128)(-l);
        if (prod > negbound) return false;
        out = -(i128)prod;
        return out <= h;
    }
    void one(R1 x, R2 y, bool boundary) {
        ++swept;
        AUV_INFLIGHT("mixed-unit ops R1=%s N1/D1=%s/%s R2=%s N2/D2=%s/%s x=%s y=%s", rep_name<R1>(), dec((i128)N1).c_str(), dec((i128)D1).c_str(), rep_name<R2>(),
                     dec((i128)N2).c_str(), dec((i128)D2).c_str(), dec((i128)x).c_str(), dec((i128)y).c_str());
        auto a = make_quantity<MU<N1, D1>>(x);
        auto b = make_quantity<MU<N2, D2>>(y);
        au_verif_ub_flag = 0;
        bool lt = a < b, le = a <= b, gt = a > b, ge = a >= b, eq = a == b, ne = a != b;
        auto s = a + b; auto d = a - b;
        int ub = au_verif_ub_flag;
        i128 sum = (i128)s.in(decltype(s)::unit), dif = (i128)d.in(decltype(d)::unit);
        constexpr bool modok = Own && std::is_integral<R1>::value;
        i128 e1 = 0, e2 = 0;
        bool f1 = mulfits((i128)x, k1, lo, hi, e1), f2 = mulfits((i128)y, k2, lo, hi, e2);
        bool cready = f1 && f2 && k1 >= lo && k1 <= hi && k2 <= hi;
        i128 mod = 0; int ss = 0; int hasmod = 0, hasss = 0;
        const i128 l1 = (i128)std::numeric_limits<R1>::lowest(), h1 = (i128)std::numeric_limits<R1>::max();
        const i128 l2 = (i128)std::numeric_limits<R2>::lowest(), h2 = (i128)std::numeric_limits<R2>::max();
        bool ownready = modok && f1 && f2 && fits(e1, l1, h1) && fits(e2, l2, h2) && k1 <= h1 && k2 <= h2;
        if (ownready && e2 != 0 && e2 != -1) { mod = ModOp<modok>::get(a, b); hasmod = 1; }   // x % -1 is UB for the raw operator at the minimum
        if (ownready && kHasSpaceship) { ss = SsOp<modok>::get(a, b); hasss = 1; }
        bool bad = false;
        if (cready) {
            bad = (lt != (e1 < e2)) || (le != (e1 <= e2)) || (gt != (e1 > e2)) || (ge != (e1 >= e2)) || (eq != (e1 == e2)) || (ne != (e1 != e2));
            if (fits(e1 + e2, plo, phi) && sum != e1 + e2) bad = true;
            if (fits(e1 - e2, plo, phi) && dif != e1 - e2) bad = true;
            if (fits(e1 + e2, plo, phi) && fits(e1 - e2, plo, phi) && ub) bad = true;
        }
        if (hasmod && mod != e1 % e2) bad = true;
        if (hasss && ss != (e1 < e2 ? -1 : (e1 > e2 ? 1 : 0))) bad = true;
        if ((le != (lt || eq)) || (ge != (gt || eq)) || (ne == eq) || (lt && gt)) bad = true;
        if (boundary) ++nontrivial;
        bool lg = false; const char *why = "sample";
        if (bad) { ++mismatches; if (mismatches <= 30) { lg = true; why = "mismatch"; } }
        else if (boundary) { lg = true; why = "boundary"; }
        else if ((rng.next() >> (64 - o.sample_shift)) == 0) lg = true;
        if (lg) {
            ++logged;
            std::printf("{\"k\":\"mixed\",\"why\":\"%s\",\"R1\":\"%s\",\"R2\":\"%s\",\"N1\":%s,\"D1\":%s,\"N2\":%s,\"D2\":%s,\"x\":%s,\"y\":%s,"
                        "\"lt\":%d,\"le\":%d,\"gt\":%d,\"ge\":%d,\"eq\":%d,\"ne\":%d,\"sum\":%s,\"dif\":%s,\"hasmod\":%d,\"mod\":%s,\"hasss\":%d,\"ss\":%d,\"ub\":%d,\"cready\":%d}\n",
                        why, rep_name<R1>(), rep_name<R2>(), wire_u(N1, false).c_str(), wire_u(D1, false).c_str(), wire_u(N2, false).c_str(), wire_u(D2, false).c_str(),
                        wire((i128)x).c_str(), wire((i128)y).c_str(), lt, le, gt, ge, eq, ne, wire(sum).c_str(), wire(dif).c_str(), hasmod, wire(mod).c_str(), hasss, ss, ub, (int)cready);
        }
    }
    void run() {
        const i128 l1 = (i128)std::numeric_limits<R1>::lowest(), h1 = (i128)std::numeric_limits<R1>::max();
        const i128 l2 = (i128)std::numeric_limits<R2>::lowest(), h2 = (i128)std::numeric_limits<R2>::max();
        // exhaustive 8-bit-valued operand pairs (intersected with each rep's range)
        for (int x = -o.window; x < o.window * 2; ++x) for (int y = -o.window; y < o.window * 2; ++y) {
            if (x < l1 || x > h1 || y < l2 || y > h2) continue;
            bool bd = (x == 0 || y == 0 || (i128)x * k1 == (i128)y * k2 || (i128)x * k1 == (i128)y * k2 + 1 || (i128)x * k1 + 1 == (i128)y * k2) && ((x + y) % 7 == 0);
            one((R1)x, (R2)y, bd);
        }
        // boundaries of the common rep after scaling, type limits, and random values
        std::vector<i128> bx = {l1, h1, hi / k1, hi / k1 + 1, lo / k1, lo / k1 - 1, 0, 1, -1}, by = {l2, h2, hi / k2, hi / k2 + 1, lo / k2, lo / k2 - 1, 0, 1, -1};
        for (i128 cx : bx) for (i128 cy : by) for (int dx = -1; dx <= 1; ++dx) for (int dy = -1; dy <= 1; ++dy) {
            i128 x = cx + dx, y = cy + dy;
            if (x < l1 || x > h1 || y < l2 || y > h2) continue;
            one((R1)x, (R2)y, true);
        }
        for (int i = 0; i < o.nrandom; ++i) {
            uint64_t a = rng.next(), b = rng.next();
            R1 x = (R1)a; R2 y = (R2)b;
            if (i % 3 == 1) { x = (R1)((i128)(R1)a >> (rng.next() % (8 * sizeof(R1)))); y = (R2)((i128)(R2)b >> (rng.next() % (8 * sizeof(R2)))); }
            if (i % 3 == 2 && k2 != 0) { i128 t = ((i128)(R1)a >> (rng.next() % (8 * sizeof(R1)))); i128 yy = (t * k1) / k2; if (yy >= l2 && yy <= h2) { x = (R1)t; y = (R2)yy; } }
            one(x, y, false);
        }
        std::printf("{\"k\":\"msum\",\"R1\":\"%s\",\"R2\":\"%s\",\"swept\":%lld,\"mismatches\":%lld,\"nontrivial\":%lld,\"logged\":%lld}\n", rep_name<R1>(), rep_name<R2>(), swept, mismatches, nontrivial, logged);
    }
};
template <typename R1, uint64_t N1, uint64_t D1, typename R2, uint64_t N2, uint64_t D2, bool Own>
void mixed(const char *k1, const char *k2, const char *lo, const char *hi, const char *plo, const char *phi, const MOpts &o) {
    MixedInst<R1, N1, D1, R2, N2, D2, Own>(k1, k2, lo, hi, plo, phi, o).run();
}
}  // namespace auv
