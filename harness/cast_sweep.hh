// Rep-changing conversions and the <T> checkers (C05).
//  sweep_ii: integral source and target -> contract comparator (like conv_sweep.hh).
//  sweep_f : a floating type somewhere on the path -> every record goes to TLC.
#pragma once
#include "au/au.hh"
#include "au/units/meters.hh"
#include "wire.hh"
#include <set>
#include <type_traits>
#include <vector>

namespace auv {
using namespace au;

struct COpts {
    uint64_t seed = 1;
    int nrandom = 256;
    int nbhd = 24;
    int sample_shift = 9;
    int fchain = 4;     // nextafter chain length around float anchors
};
inline COpts parse_copts(int argc, char **argv) {
    COpts o;
    for (int i = 1; i + 1 < argc; i += 2) {
        std::string k = argv[i];
        long long v = std::atoll(argv[i + 1]);
        if (k == "--seed") o.seed = (uint64_t)v;
        if (k == "--nrandom") o.nrandom = (int)v;
        if (k == "--nbhd") o.nbhd = (int)v;
        if (k == "--sample-shift") o.sample_shift = (int)v;
        if (k == "--fchain") o.fchain = (int)v;
    }
    return o;
}

template <uint64_t N, uint64_t D>
struct ScaledMetersC : decltype(Meters{} * mag<N>() / mag<D>()) {};

// ------------------------------------------------------------------------------------------------
template <typename S, typename T, uint64_t N, uint64_t D>
struct InstII {
    i128 lo, hi, mod;
    long long swept = 0, mismatches = 0, nontrivial = 0, logged = 0;
    COpts o;
    Rng rng;
    InstII(const char *lo_, const char *hi_, const char *mod_, const COpts &o_)
        : lo(parse_i128(lo_)), hi(parse_i128(hi_)), mod(parse_i128(mod_)), o(o_),
          rng(o_.seed ^ (N * 1000003ULL) ^ (D * 998244353ULL) ^ (sizeof(S) * 131) ^ (sizeof(T) * 7)) {}

    void log(const char *why, S x, bool ov, bool tr, bool lossy, T res, int ub, bool covf, bool ctrunc) {
        ++logged;
        std::printf("{\"k\":\"castii\",\"why\":\"%s\",\"S\":\"%s\",\"T\":\"%s\",\"N\":%s,\"D\":%s,\"x\":%s,\"ovf\":%d,\"trunc\":%d,\"lossy\":%d,"
                    "\"res\":%s,\"ub\":%d,\"covf\":%d,\"ctrunc\":%d}\n",
                    why, rep_name<S>(), rep_name<T>(), wire_u((u128)N, false).c_str(), wire_u((u128)D, false).c_str(), wire((i128)x).c_str(),
                    (int)ov, (int)tr, (int)lossy, wire((i128)res).c_str(), ub, (int)covf, (int)ctrunc);
    }
    void one(S x, bool boundary) {
        ++swept;
        AUV_INFLIGHT("rep-changing conversion/checkers S=%s T=%s N=%s D=%s x=%s", rep_name<S>(), rep_name<T>(), dec((i128)(u128)N).c_str(), dec((i128)(u128)D).c_str(), dec((i128)x).c_str());
        auto q = make_quantity<ScaledMetersC<N, D>>(x);
        bool ov = will_conversion_overflow<T>(q, meters);
        bool tr = will_conversion_truncate<T>(q, meters);
        bool lossy = is_conversion_lossy<T>(q, meters);
        T res = 0;
        int ub = 0;
        bool forms_ok = true;
        if (!lossy) {
            au_verif_ub_flag = 0;
            res = q.template coerce_in<T>(meters);
            T r2 = q.template coerce_as<T>(meters).in(meters);
            T r3 = q.template as<T>(meters).in(meters);
            T r4 = q.template in<T>(meters);
            ub = au_verif_ub_flag;
            forms_ok = (r2 == res) && (r3 == res) && (r4 == res);
        }
        i128 xi = (i128)x;
        bool covf = xi < lo || xi > hi;
        bool ctrunc = (xi % mod) != 0;
        bool bad = (ov && !covf) || (covf && !lossy) || (lossy != (ov || tr)) || !forms_ok;
        if (!bad && !lossy) {
            bool neg = xi < 0;
            u128 a = neg ? (u128)(-xi) : (u128)xi;
            u128 v = (a / (u128)mod) * (u128)N;
            i128 expect = neg ? -(i128)v : (i128)v;
            if (ctrunc || (i128)res != expect || ub != 0) bad = true;
        }
        if (boundary) ++nontrivial;
        if (bad) {
            ++mismatches;
            if (mismatches <= 30) log(forms_ok ? "mismatch" : "forms", x, ov, tr, lossy, res, ub, covf, ctrunc);
        } else if (boundary) {
            log("boundary", x, ov, tr, lossy, res, ub, covf, ctrunc);
        } else if ((rng.next() >> (64 - o.sample_shift)) == 0) {
            log("sample", x, ov, tr, lossy, res, ub, covf, ctrunc);
        }
    }
    void run() {
        typedef std::numeric_limits<S> L;
        const i128 smin = (i128)L::lowest(), smax = (i128)L::max();
        const i128 tmin = (i128)std::numeric_limits<T>::lowest(), tmax = (i128)std::numeric_limits<T>::max();
        std::set<i128> bpts;
        const i128 cand[] = {lo - 1, lo, lo + 1, hi - 1, hi, hi + 1, 0, 1, -1, mod, -mod, smin, smax, smin + 1, smax - 1, tmin, tmax, tmin - 1, tmax + 1,
                             (hi / mod) * mod, (hi / mod) * mod + mod, (lo / mod) * mod, (lo / mod) * mod - mod};
        for (i128 c : cand) if (c >= smin && c <= smax) bpts.insert(c);
        if (sizeof(S) <= 2) {
            for (i128 v = smin; v <= smax; ++v) one((S)v, bpts.count(v) != 0);
        } else {
            std::set<i128> pts;
            for (i128 c : bpts) for (int dlt = -o.nbhd; dlt <= o.nbhd; ++dlt) { i128 v = c + dlt; if (v >= smin && v <= smax) pts.insert(v); }
            for (i128 v : pts) one((S)v, bpts.count(v) != 0);
            for (int i = 0; i < o.nrandom; ++i) {
                uint64_t r = rng.next();
                S v = (S)r;
                if (i % 4 == 1) {
                    i128 span = hi - lo + 1; if (span <= 0) span = 1;
                    i128 m = lo + (i128)((u128)r % (u128)span);
                    m = (m / mod) * mod;
                    if (m >= smin && m <= smax) v = (S)m;
                } else if (i % 4 == 2) {
                    int sh = (int)(rng.next() % (8 * sizeof(S)));
                    v = (S)((i128)(S)r >> sh);
                }
                one(v, false);
            }
        }
        std::printf("{\"k\":\"sum\",\"S\":\"%s\",\"T\":\"%s\",\"N\":\"%s\",\"D\":\"%s\",\"swept\":%lld,\"mismatches\":%lld,\"nontrivial\":%lld,\"logged\":%lld}\n",
                    rep_name<S>(), rep_name<T>(), dec((i128)(u128)N).c_str(), dec((i128)(u128)D).c_str(), swept, mismatches, nontrivial, logged);
    }
};
template <typename S, typename T, uint64_t N, uint64_t D>
void sweep_ii(const char *lo, const char *hi, const char *mod, const COpts &o) { InstII<S, T, N, D>(lo, hi, mod, o).run(); }

// ------------------------------------------------------------------------------------------------
// the same-rep (non-<T>) checker forms, only when source and target rep coincide (C04 floating clause)
template <typename S, typename T> struct SameRepForms {
    template <typename Q> static void get(Q, int &, int &, int &) {}
};
template <typename S> struct SameRepForms<S, S> {
    template <typename Q> static void get(Q q, int &ov, int &tr, int &lossy) {
        ov = will_conversion_overflow(q, meters);
        tr = will_conversion_truncate(q, meters);
        lossy = is_conversion_lossy(q, meters);
    }
};

template <typename F> F fnext(F x, bool up) { return std::nextafter(x, up ? std::numeric_limits<F>::infinity() : -std::numeric_limits<F>::infinity()); }

template <typename S, typename T, uint64_t N, uint64_t D>
struct InstF {
    typedef std::common_type_t<S, T> C;
    long long swept = 0, logged = 0, nontrivial = 0;
    COpts o;
    Rng rng;
    explicit InstF(const COpts &o_) : o(o_), rng(o_.seed ^ (N * 1000003ULL) ^ (D * 998244353ULL) ^ (sizeof(S) * 131) ^ (sizeof(T) * 7) ^ 0xF) {}

    void one(S x, bool special) {
        ++swept; ++logged;
        if (special) ++nontrivial;
        AUV_INFLIGHT("rep-changing conversion/checkers S=%s T=%s N=%s D=%s (floating path)", rep_name<S>(), rep_name<T>(), dec((i128)(u128)N).c_str(), dec((i128)(u128)D).c_str());
        auto q = make_quantity<ScaledMetersC<N, D>>(x);
        bool ov = will_conversion_overflow<T>(q, meters);
        bool tr = will_conversion_truncate<T>(q, meters);
        bool lossy = is_conversion_lossy<T>(q, meters);
        int ov0 = -1, tr0 = -1, lossy0 = -1;
        SameRepForms<S, T>::get(q, ov0, tr0, lossy0);
        // the scaled value in the common type, through the public API (what the conversion narrows)
        C y = q.template coerce_in<C>(meters);
        T res = T(0);
        int ub = 0;
        bool forms_ok = true;
        if (!lossy) {
            au_verif_ub_flag = 0;
            res = q.template coerce_in<T>(meters);
            T r2 = q.template coerce_as<T>(meters).in(meters);
            ub = au_verif_ub_flag;
            forms_ok = (std::memcmp(&r2, &res, sizeof(T) > 10 ? 10 : sizeof(T)) == 0) || (r2 != r2 && res != res);
        }
        std::printf("{\"k\":\"castf\",\"S\":\"%s\",\"T\":\"%s\",\"C\":\"%s\",\"N\":%s,\"D\":%s,\"x\":%s,\"y\":%s,\"res\":%s,\"ovf\":%d,\"trunc\":%d,\"lossy\":%d,\"ub\":%d,\"forms\":%d,\"ovf0\":%d,\"trunc0\":%d,\"lossy0\":%d}\n",
                    rep_name<S>(), rep_name<T>(), rep_name<C>(), wire_u((u128)N, false).c_str(), wire_u((u128)D, false).c_str(),
                    anywire(x).c_str(), fwire(y).c_str(), anywire(res).c_str(), (int)ov, (int)tr, (int)lossy, ub, (int)forms_ok, ov0, tr0, lossy0);
    }

    template <typename X = S, std::enable_if_t<std::is_floating_point<X>::value, int> = 0>
    void run_src() {
        typedef std::numeric_limits<S> L;
        const long double f = (long double)N / (long double)D;
        std::vector<long double> anchors = {0.0L, 1.0L, -1.0L, 0.5L, 1.5L, 2.5L, (long double)D, (long double)N};
        if (std::is_integral<T>::value) {
            typedef std::numeric_limits<T> LT;
            long double lim[] = {(long double)LT::max(), (long double)LT::lowest(), std::ldexp(1.0L, LT::digits), -std::ldexp(1.0L, LT::digits),
                                 std::ldexp(1.0L, LT::digits - 1), std::ldexp(1.0L, LT::digits + 1)};
            for (long double a : lim) { anchors.push_back(a); anchors.push_back(a / f); }
        } else {
            long double lim[] = {(long double)std::numeric_limits<T>::max(), (long double)std::numeric_limits<T>::lowest()};
            for (long double a : lim) { anchors.push_back(a); anchors.push_back(a / f); }
        }
        // the limits of the narrower floating types: values that are far inside S's range but outside float's / double's -- an
        // intermediate that is narrower than the rep would misjudge exactly these
        {
            long double narrow[] = {(long double)std::numeric_limits<float>::max(), (long double)std::numeric_limits<double>::max(), (long double)std::numeric_limits<float>::min(),
                                    (long double)std::numeric_limits<double>::min(), 1e306L, 1e1000L, 1e-1000L, 1e4000L};
            for (long double a : narrow) for (long double b : {a, -a, a / f, -a / f, a * 4, a / f * 4}) if (std::fabs(b) < (long double)L::max() / 8 && (b == 0 || std::fabs(b) > (long double)L::min() * 8)) anchors.push_back(b);
        }
        for (long double a : anchors) {
            S x = (S)a, up = x, dn = x;
            one(x, true);
            for (int i = 0; i < o.fchain; ++i) { up = fnext(up, true); dn = fnext(dn, false); one(up, true); one(dn, true); }
        }
        one(L::infinity(), true); one(-L::infinity(), true); one(L::quiet_NaN(), true); one(-L::quiet_NaN(), true);
        one(L::denorm_min(), true); one(-L::denorm_min(), true); one(L::min(), true); one(L::max(), true); one(L::lowest(), true);
        one((S)-0.0, true); one(L::epsilon(), true);
        for (int i = 0; i < o.nrandom; ++i) {
            uint64_t r = rng.next();
            int ex = (i % 7 == 3) ? (int)(rng.next() % (uint64_t)(L::max_exponent - L::min_exponent - 8)) + L::min_exponent + 4 : (int)(rng.next() % 150) - 40;
            S x = (S)std::ldexp((long double)(r >> 11) / 9007199254740992.0L, ex);
            if (rng.next() & 1) x = -x;
            switch (i % 4) {
                case 0: one(x, false); break;
                case 1: one(std::trunc(x), false); break;                               // integer-valued
                case 2: one((S)(std::trunc(x) * (long double)D), false); break;         // multiple of D
                default: one((S)(long long)(r % 100000) - 50000, false); break;         // small integers
            }
        }
    }
    template <typename X = S, std::enable_if_t<std::is_integral<X>::value, int> = 0>
    void run_src() {
        typedef std::numeric_limits<S> L;
        const i128 smin = (i128)L::lowest(), smax = (i128)L::max();
        std::set<i128> pts;
        const long double f = (long double)N / (long double)D;
        const long double tmaxf = (long double)std::numeric_limits<T>::max();
        std::vector<i128> cand = {0, 1, -1, smin, smax, (i128)D, -(i128)D, (i128)N, (i128)1 << std::numeric_limits<T>::digits,
                                  ((i128)1 << std::numeric_limits<T>::digits) + 1, ((i128)1 << std::numeric_limits<T>::digits) - 1};
        if (tmaxf / f < 1.0e30L) cand.push_back((i128)(tmaxf / f));
        for (i128 c : cand) for (int dlt = -3; dlt <= 3; ++dlt) { i128 v = c + dlt; if (v >= smin && v <= smax) pts.insert(v); }
        for (i128 v : pts) one((S)v, true);
        for (int i = 0; i < o.nrandom; ++i) {
            uint64_t r = rng.next();
            S v = (S)r;
            if (i % 3 == 1) { int sh = (int)(rng.next() % (8 * sizeof(S))); v = (S)((i128)(S)r >> sh); }
            if (i % 3 == 2) v = (S)(((i128)(S)r / (i128)D) * (i128)D);
            one(v, false);
        }
    }
    void run() {
        run_src();
        std::printf("{\"k\":\"sumf\",\"S\":\"%s\",\"T\":\"%s\",\"N\":\"%s\",\"D\":\"%s\",\"swept\":%lld,\"nontrivial\":%lld}\n",
                    rep_name<S>(), rep_name<T>(), dec((i128)(u128)N).c_str(), dec((i128)(u128)D).c_str(), swept, nontrivial);
    }
};
template <typename S, typename T, uint64_t N, uint64_t D>
void sweep_f(const COpts &o) { InstF<S, T, N, D>(o).run(); }
}  // namespace auv
