// C13: Quantity<U,R> vs the raw operators on R, side by side ("raw twin"), plus bit-exact round trips.
#pragma once
#include "au/au.hh"
#include "au/units/meters.hh"
#include "au/units/seconds.hh"
#include "wire.hh"
#include <cstring>
#include <vector>
namespace auv {
using namespace au;
struct WOpts { uint64_t seed = 1; int nrandom = 3000; int sample_shift = 9; long long nfloat = 1 << 22; };
inline WOpts parse_wopts(int argc, char **argv) {
    WOpts o;
    for (int i = 1; i + 1 < argc; i += 2) {
        std::string k = argv[i]; long long v = std::atoll(argv[i + 1]);
        if (k == "--seed") o.seed = (uint64_t)v;
        if (k == "--nrandom") o.nrandom = (int)v;
        if (k == "--sample-shift") o.sample_shift = (int)v;
        if (k == "--nfloat") o.nfloat = v;
    }
    return o;
}
template <typename A> bool same_bits_impl(A a, A b, std::true_type) {
    return std::memcmp(&a, &b, sizeof(A) > 10 && std::is_floating_point<A>::value ? 10 : sizeof(A)) == 0;
}
template <typename A, typename B> bool same_bits_impl(A, B, std::false_type) { return false; }   // different result types
template <typename A, typename B> bool same_bits(A a, B b) { return same_bits_impl(a, b, std::is_same<A, B>{}); }
struct Tally { long long n = 0, mism = 0, logged = 0; };

template <typename R, bool IsInt = std::is_integral<R>::value> struct IntOnly {
    template <typename Q> static void mod(const char *, Q, Q, R, R, Tally &, Rng &, int) {}
};

template <typename R> void log_rec(const char *why, const char *op, R x, R y, i128 res, const char *rrep, R qx, R qy) {
    std::printf("{\"k\":\"raw\",\"why\":\"%s\",\"op\":\"%s\",\"R\":\"%s\",\"x\":%s,\"y\":%s,\"res\":%s,\"rrep\":\"%s\",\"lt\":%d,\"le\":%d,\"gt\":%d,\"ge\":%d,\"eq\":%d,\"ne\":%d}\n",
                why, op, rep_name<R>(), wire((i128)x).c_str(), wire((i128)y).c_str(), wire(res).c_str(), rrep,
                (int)(meters(qx) < meters(qy)), (int)(meters(qx) <= meters(qy)), (int)(meters(qx) > meters(qy)), (int)(meters(qx) >= meters(qy)),
                (int)(meters(qx) == meters(qy)), (int)(meters(qx) != meters(qy)));
}
// one integer operand pair through every same-unit operator; raw result computed next to it
template <typename R> void int_pair(R x, R y, Tally &t, Rng &rng, int shift, bool force) {
    typedef decltype(x + y) P;     // promoted result type
    const i128 lo = (i128)std::numeric_limits<P>::lowest(), hi = (i128)std::numeric_limits<P>::max();
    auto a = meters(x), b = meters(y);
    bool lg = force || ((rng.next() >> (64 - shift)) == 0);
    auto chk = [&](const char *op, bool defined, i128 qres, i128 rres, const char *rrep, bool bits) {
        if (!defined) return;
        ++t.n;
        bool bad = !bits || qres != rres;
        if (bad) { ++t.mism; if (t.mism <= 40) { ++t.logged; log_rec<R>("mismatch", op, x, y, qres, rrep, x, y); } }
        else if (lg) { ++t.logged; log_rec<R>("sample", op, x, y, qres, rrep, x, y); }
    };
    bool sgn = std::is_signed<P>::value;
    i128 s = (i128)x + (i128)y, d = (i128)x - (i128)y, m = (i128)x * (i128)y;
    { auto q = a + b; chk("add", !sgn || (s >= lo && s <= hi), (i128)q.in(meters), (i128)(x + y), rep_name<typename decltype(q)::Rep>(), same_bits(q.in(meters), x + y)); }
    { auto q = a - b; chk("sub", !sgn || (d >= lo && d <= hi), (i128)q.in(meters), (i128)(x - y), rep_name<typename decltype(q)::Rep>(), same_bits(q.in(meters), x - y)); }
    if (y != 0 && !(sgn && y == (R)-1)) { auto q = a % b; chk("mod", true, (i128)q.in(meters), (i128)(x % y), rep_name<typename decltype(q)::Rep>(), same_bits(q.in(meters), x % y)); }
    { auto q = +a; chk("uplus", true, (i128)q.in(meters), (i128)(+x), rep_name<typename decltype(q)::Rep>(), same_bits(q.in(meters), +x)); }
    { bool def = !sgn || -(i128)x <= hi; if (def) { auto q = -a; chk("uminus", true, (i128)q.in(meters), (i128)(-x), rep_name<typename decltype(q)::Rep>(), same_bits(q.in(meters), -x)); } }
    { bool def = !sgn || (m >= lo && m <= hi); if (def) { auto q = a * y; chk("mul_rep", true, (i128)q.in(meters), (i128)(x * y), rep_name<typename decltype(q)::Rep>(), same_bits(q.in(meters), x * y));
                                                            auto q2 = y * a; chk("mul_rep", true, (i128)q2.in(meters), (i128)(y * x), rep_name<typename decltype(q2)::Rep>(), same_bits(q2.in(meters), y * x)); } }
    if (y != 0 && !(sgn && y == (R)-1)) { auto q = a / y; chk("div_rep", true, (i128)q.in(meters), (i128)(x / y), rep_name<typename decltype(q)::Rep>(), same_bits(q.in(meters), x / y)); }
    // compound assignment: value as the raw compound operator leaves it
    if (!sgn || (s >= lo && s <= hi)) { auto q = a; q += b; R r = x; r += y; chk("pluseq", true, (i128)q.in(meters), (i128)r, rep_name<R>(), same_bits(q.in(meters), r)); }
    if (!sgn || (d >= lo && d <= hi)) { auto q = a; q -= b; R r = x; r -= y; chk("minuseq", true, (i128)q.in(meters), (i128)r, rep_name<R>(), same_bits(q.in(meters), r)); }
    if (!sgn || (m >= lo && m <= hi)) { auto q = a; q *= y; R r = x; r *= y; chk("muleq_rep", true, (i128)q.in(meters), (i128)r, rep_name<R>(), same_bits(q.in(meters), r)); }
    if (y != 0 && !(sgn && y == (R)-1)) { auto q = a; q /= y; R r = x; r /= y; chk("diveq_rep", true, (i128)q.in(meters), (i128)r, rep_name<R>(), same_bits(q.in(meters), r)); }
    // comparisons against raw
    ++t.n;
    if ((a < b) != (x < y) || (a <= b) != (x <= y) || (a > b) != (x > y) || (a >= b) != (x >= y) || (a == b) != (x == y) || (a != b) != (x != y)) {
        ++t.mism; ++t.logged; log_rec<R>("mismatch", "add", x, y, (i128)(a + b).in(meters), rep_name<decltype(x + y)>(), x, y);
    }
}
template <typename R> void int_ops(const WOpts &o) {
    Tally t; Rng rng(o.seed ^ sizeof(R) * 977 ^ (std::is_signed<R>::value ? 5 : 9));
    AUV_INFLIGHT("same-unit integer operators R=%s", rep_name<R>());
    if (sizeof(R) == 1) {
        for (int x = std::numeric_limits<R>::lowest(); x <= std::numeric_limits<R>::max(); ++x)
            for (int y = std::numeric_limits<R>::lowest(); y <= std::numeric_limits<R>::max(); ++y) int_pair<R>((R)x, (R)y, t, rng, o.sample_shift + 4, false);
    } else {
        std::vector<i128> pts = {0, 1, -1, 2, (i128)std::numeric_limits<R>::max(), (i128)std::numeric_limits<R>::lowest(), (i128)std::numeric_limits<R>::max() - 1,
                                 (i128)std::numeric_limits<R>::lowest() + 1, (i128)std::numeric_limits<R>::max() / 2, 127, 128, 255, 256, 32767, 32768, 65535, 65536};
        for (i128 px : pts) for (i128 py : pts) {
            if (px < (i128)std::numeric_limits<R>::lowest() || px > (i128)std::numeric_limits<R>::max() || py < (i128)std::numeric_limits<R>::lowest() || py > (i128)std::numeric_limits<R>::max()) continue;
            int_pair<R>((R)px, (R)py, t, rng, o.sample_shift, true);
        }
        for (int i = 0; i < o.nrandom; ++i) {
            R x = (R)rng.next(), y = (R)rng.next();
            if (i & 1) { x = (R)((i128)x >> (rng.next() % (8 * sizeof(R)))); y = (R)((i128)y >> (rng.next() % (8 * sizeof(R)))); }
            int_pair<R>(x, y, t, rng, o.sample_shift - 4, false);
        }
    }
    std::printf("{\"k\":\"wsum\",\"what\":\"int_ops\",\"R\":\"%s\",\"n\":%lld,\"mismatches\":%lld}\n", rep_name<R>(), t.n, t.mism);
}
// a random value of F: for float/double an arbitrary bit pattern; for x87 long double (whose 80-bit encodings include
// non-canonical pseudo-denormals/unnormals that any arithmetic renormalises) a canonical value built from a random significand/exponent
template <typename F, typename Bits> F random_pattern(Rng &rng) {
    if (sizeof(F) == sizeof(Bits)) { Bits b = (Bits)rng.next(); F x; std::memcpy(&x, &b, sizeof(Bits)); return x; }
    uint64_t m = rng.next() | (1ULL << 63);
    int e = (int)(rng.next() % 32000) - 16000;
    F x = (F)std::ldexp((long double)m, e - 63);
    uint64_t sel = rng.next() % 64;
    if (sel == 0) x = std::numeric_limits<F>::quiet_NaN();
    if (sel == 1) x = std::numeric_limits<F>::infinity();
    if (sel == 2) x = F(0);
    return (rng.next() & 1) ? -x : x;
}
// floating reps: operators vs raw, bit for bit (NaN-aware), and the round trip unit(x).in(unit)
template <typename F, typename Bits> void float_ops(const WOpts &o) {
    Tally t; Rng rng(o.seed ^ sizeof(F) * 131);
    AUV_INFLIGHT("same-unit floating operators / round trip R=%s", rep_name<F>());
    auto roundtrip = [&](F x) {
        ++t.n;
        F y = meters(x).in(meters);
        F z = make_quantity<Seconds>(x).in(seconds);
        F w = meters(x).template in<F>(meters);
        if (!same_bits(x, y) || !same_bits(x, z) || !same_bits(x, w)) { ++t.mism; if (t.mism < 20) std::printf("{\"k\":\"fmis\",\"what\":\"roundtrip\",\"R\":\"%s\",\"x\":%s}\n", rep_name<F>(), fwire(x).c_str()); }
        // the same round trip through a QuantityPoint maker
        F py = meters_pt(x).in(meters_pt);
        F pz = meters_pt(x).template in<F>(meters_pt);
        F pw = meters_pt(x).coerce_in(meters_pt);
        if (!same_bits(x, py) || !same_bits(x, pz) || !same_bits(x, pw)) { ++t.mism; if (t.mism < 20) std::printf("{\"k\":\"fmis\",\"what\":\"point roundtrip\",\"R\":\"%s\",\"x\":%s}\n", rep_name<F>(), fwire(x).c_str()); }
    };
    auto pairops = [&](F x, F y) {
        ++t.n;
        auto a = meters(x), b = meters(y);
        bool ok = same_bits((a + b).in(meters), x + y) && same_bits((a - b).in(meters), x - y) && same_bits((a * y).in(meters), x * y) &&
                  same_bits((y * a).in(meters), y * x) && same_bits((a / y).in(meters), x / y) && same_bits((-a).in(meters), -x) && same_bits((+a).in(meters), +x) &&
                  (a < b) == (x < y) && (a <= b) == (x <= y) && (a > b) == (x > y) && (a >= b) == (x >= y) && (a == b) == (x == y) && (a != b) == (x != y);
        { auto q = a; q += b; F r = x; r += y; ok = ok && same_bits(q.in(meters), r); }
        { auto q = a; q -= b; F r = x; r -= y; ok = ok && same_bits(q.in(meters), r); }
        { auto q = a; q *= y; F r = x; r *= y; ok = ok && same_bits(q.in(meters), r); }
        { auto q = a; q /= y; F r = x; r /= y; ok = ok && same_bits(q.in(meters), r); }
        if (!ok) { ++t.mism; if (t.mism < 20) std::printf("{\"k\":\"fmis\",\"what\":\"ops\",\"R\":\"%s\",\"x\":%s,\"y\":%s}\n", rep_name<F>(), fwire(x).c_str(), fwire(y).c_str()); }
    };
    std::vector<F> sp = {F(0), -F(0), F(1), F(-1), std::numeric_limits<F>::infinity(), -std::numeric_limits<F>::infinity(), std::numeric_limits<F>::quiet_NaN(),
                         -std::numeric_limits<F>::quiet_NaN(), std::numeric_limits<F>::signaling_NaN(), std::numeric_limits<F>::denorm_min(), std::numeric_limits<F>::min(),
                         std::numeric_limits<F>::max(), std::numeric_limits<F>::lowest(), std::numeric_limits<F>::epsilon(), F(0.1), F(3.5), F(1e10), F(-7.25e-5)};
    for (F x : sp) { roundtrip(x); for (F y : sp) pairops(x, y); }
    for (long long i = 0; i < o.nfloat; ++i) {
        F x = random_pattern<F, Bits>(rng);                                      // arbitrary bit patterns incl. NaN payloads
        roundtrip(x);
        if ((i & 15) == 0) { F y = random_pattern<F, Bits>(rng); pairops(x, y); }
    }
    std::printf("{\"k\":\"wsum\",\"what\":\"float_ops\",\"R\":\"%s\",\"n\":%lld,\"mismatches\":%lld}\n", rep_name<F>(), t.n, t.mism);
}
inline void all_float32_patterns() {
    long long mism = 0;
    AUV_INFLIGHT("round trip of all 2^32 float bit patterns");
    for (uint64_t b = 0; b < (1ULL << 32); ++b) { uint32_t u = (uint32_t)b; float x; std::memcpy(&x, &u, 4); float y = meters(x).in(meters); uint32_t v; std::memcpy(&v, &y, 4); if (u != v) ++mism; }
    std::printf("{\"k\":\"wsum\",\"what\":\"float32_all_patterns\",\"R\":\"f32\",\"n\":%lld,\"mismatches\":%lld}\n", 1LL << 32, mism);
}
}  // namespace auv
