// C14: products, quotients, powers and roots of quantities next to the raw operator / std function (raw twin).
#pragma once
#include "au/au.hh"
#include "au/units/meters.hh"
#include "au/units/seconds.hh"
#include "au/units/hertz.hh"
#include "wire.hh"
#include <cmath>
#include <cstring>
namespace auv {
using namespace au;
template <typename A> bool sb_impl(A a, A b, std::true_type) { return std::memcmp(&a, &b, sizeof(A) > 10 && std::is_floating_point<A>::value ? 10 : sizeof(A)) == 0; }
template <typename A, typename B> bool sb_impl(A, B, std::false_type) { return false; }
template <typename A, typename B> bool sb(A a, B b) { return sb_impl(a, b, std::is_same<A, B>{}); }
template <typename Q> auto val(Q q) { return q.in(Q::unit); }          // stored value of a quantity
inline double val(double x) { return x; }
template <typename T, std::enable_if_t<std::is_arithmetic<T>::value, int> = 0> T val(T x) { return x; }

template <typename R> void log_pq(const char *op, R x, R y, i128 res, const char *rrep) {
    std::printf("{\"k\":\"raw\",\"why\":\"sample\",\"op\":\"%s\",\"R\":\"%s\",\"x\":%s,\"y\":%s,\"res\":%s,\"rrep\":\"%s\",\"lt\":%d,\"le\":%d,\"gt\":%d,\"ge\":%d,\"eq\":%d,\"ne\":%d}\n",
                op, rep_name<R>(), wire((i128)x).c_str(), wire((i128)y).c_str(), wire(res).c_str(), rrep, (int)(x < y), (int)(x <= y), (int)(x > y), (int)(x >= y), (int)(x == y), (int)(x != y));
}
// integer products / quotients: quantity x quantity (different units; unit cancels or not), value must equal raw x * y, x / y
template <typename R> void int_products(uint64_t seed) {
    Rng rng(seed ^ sizeof(R) * 313);
    long long n = 0, mism = 0;
    typedef decltype(R{} * R{}) P;
    const i128 lo = (i128)std::numeric_limits<P>::lowest(), hi = (i128)std::numeric_limits<P>::max();
    auto one = [&](R x, R y, bool lg) {
        AUV_INFLIGHT("quantity product/quotient R=%s x=%s y=%s", rep_name<R>(), dec((i128)x).c_str(), dec((i128)y).c_str());
        i128 m = (i128)x * (i128)y;
        bool sgn = std::is_signed<P>::value;
        if (!sgn || (m >= lo && m <= hi)) {
            ++n;
            auto p1 = meters(x) * seconds(y);        // m*s
            auto p2 = hertz(x) * seconds(y);         // collapses to a raw number
            auto p3 = meters(x) * meters(y);         // m^2
            bool ok = sb(val(p1), x * y) && sb(p2, x * y) && sb(val(p3), x * y);
            if (!ok) { ++mism; if (mism < 20) log_pq<R>("mul_rep", x, y, (i128)val(p1), rep_name<decltype(val(p1))>()); }
            else if (lg) log_pq<R>("mul_rep", x, y, (i128)val(p1), rep_name<decltype(val(p1))>());
        }
        if (y != 0 && !(sgn && y == (R)-1)) {
            ++n;
            auto q1 = meters(x) / unblock_int_div(seconds(y));     // m/s (guard lifted explicitly)
            auto q2 = meters(x) / meters(y);                       // same unit: allowed, collapses to a raw number
            auto q3 = x / unblock_int_div(seconds(y));             // scalar / quantity -> 1/s
            bool ok = sb(val(q1), x / y) && sb(q2, x / y) && sb(val(q3), x / y);
            if (!ok) { ++mism; if (mism < 20) log_pq<R>("div_rep", x, y, (i128)val(q1), rep_name<decltype(val(q1))>()); }
            else if (lg) log_pq<R>("div_rep", x, y, (i128)val(q1), rep_name<decltype(val(q1))>());
        }
    };
    if (sizeof(R) == 1) {
        for (int x = std::numeric_limits<R>::lowest(); x <= std::numeric_limits<R>::max(); ++x)
            for (int y = std::numeric_limits<R>::lowest(); y <= std::numeric_limits<R>::max(); ++y) one((R)x, (R)y, ((x * 31 + y) % 257) == 0);
    } else {
        for (int i = 0; i < 20000; ++i) {
            R x = (R)rng.next(), y = (R)rng.next();
            if (i % 2) { x = (R)((i128)x >> (rng.next() % (8 * sizeof(R)))); y = (R)((i128)y >> (rng.next() % (8 * sizeof(R)))); }
            one(x, y, i % 64 == 0);
        }
        R ends[] = {std::numeric_limits<R>::max(), std::numeric_limits<R>::lowest(), 0, 1, (R)-1, 2};
        for (R x : ends) for (R y : ends) one(x, y, true);
    }
    std::printf("{\"k\":\"psum\",\"what\":\"int_products\",\"R\":\"%s\",\"n\":%lld,\"mismatches\":%lld}\n", rep_name<R>(), n, mism);
}
template <int E, typename R> long long ipow_case(R x, long long &mism) {
    // exact integer power (when it fits) by repeated multiplication in 128 bits
    i128 e = 1; bool fits = true;
    typedef decltype(R{} * R{}) P;
    for (int i = 0; i < E; ++i) { e *= (i128)x; if (e > (i128)std::numeric_limits<P>::max() || e < (i128)std::numeric_limits<P>::lowest()) { fits = false; break; } }
    if (!fits || !(e <= (i128)std::numeric_limits<R>::max() && e >= (i128)std::numeric_limits<R>::lowest())) return 0;
    auto q = int_pow<E>(meters(x));
    if ((i128)val(q) != e) { ++mism; std::printf("{\"k\":\"pmis\",\"what\":\"int_pow<%d>\",\"R\":\"%s\",\"x\":%s,\"res\":%s}\n", E, rep_name<R>(), wire((i128)x).c_str(), wire((i128)val(q)).c_str()); }
    return 1;
}
template <typename R> void int_powers() {
    long long n = 0, mism = 0;
    for (int v = -300; v <= 300; ++v) {
        if (v < (long long)std::numeric_limits<R>::lowest() || v > (long long)std::numeric_limits<R>::max()) continue;
        R x = (R)v;
        n += ipow_case<0>(x, mism) + ipow_case<1>(x, mism) + ipow_case<2>(x, mism) + ipow_case<3>(x, mism) + ipow_case<4>(x, mism);
    }
    // roots of integral quantities: exactly the std function on the stored value, in the std function's result type
    {
        R pts[] = {0, 1, 2, 3, 4, 7, 8, 9, 27, 64, 100, 121, 125, 126, (R)(std::numeric_limits<R>::max()), (R)(std::numeric_limits<R>::max() - 1), (R)(std::numeric_limits<R>::max() / 2), (R)(std::numeric_limits<R>::max() / 3)};
        for (R x : pts) {
            ++n;
            auto s = sqrt(squared(meters)(x)); auto c = cbrt(cubed(meters)(x));
            bool ok = std::is_same<typename decltype(s)::Rep, decltype(std::sqrt(x))>::value && std::is_same<typename decltype(c)::Rep, decltype(std::cbrt(x))>::value &&
                      sb(val(s), std::sqrt(x)) && sb(val(c), std::cbrt(x)) && std::is_same<typename decltype(s)::Unit, Meters>::value && std::is_same<typename decltype(c)::Unit, Meters>::value;
            if (!ok) { ++mism; std::printf("{\"k\":\"pmis\",\"what\":\"sqrt/cbrt of an integral quantity\",\"R\":\"%s\",\"x\":%s,\"res\":%s}\n", rep_name<R>(), wire((i128)x).c_str(), wire((i128)0).c_str()); }
        }
    }
    std::printf("{\"k\":\"psum\",\"what\":\"int_powers\",\"R\":\"%s\",\"n\":%lld,\"mismatches\":%lld}\n", rep_name<R>(), n, mism);
}
// int_pow<E> on a floating rep for every exponent of the property's range and a few beyond: the exact power to a few ulps
// (the library multiplies repeatedly), wherever the exact power is a comfortable normal number
template <typename F, int E> bool float_pow_ok(F x) {
    long double e = std::pow((long double)x, (long double)E);
    F got = val(int_pow<E>(meters(x)));
    if (!(std::fabs(e) > (long double)std::numeric_limits<F>::min() * 1e6L && std::fabs(e) < (long double)std::numeric_limits<F>::max() / 1e6L)) return true;
    return std::fabs((long double)got - e) <= 16 * (long double)std::numeric_limits<F>::epsilon() * std::fabs(e);
}
template <typename F> bool float_pows_ok(F x) {
    return float_pow_ok<F, -7>(x) && float_pow_ok<F, -6>(x) && float_pow_ok<F, -5>(x) && float_pow_ok<F, -4>(x) && float_pow_ok<F, -3>(x) && float_pow_ok<F, -2>(x) && float_pow_ok<F, -1>(x) &&
           float_pow_ok<F, 2>(x) && float_pow_ok<F, 3>(x) && float_pow_ok<F, 4>(x) && float_pow_ok<F, 5>(x) && float_pow_ok<F, 6>(x) && float_pow_ok<F, 7>(x) && float_pow_ok<F, 9>(x);
}
template <typename F> void float_products(uint64_t seed) {
    Rng rng(seed ^ sizeof(F) * 17);
    long long n = 0, mism = 0;
    auto one = [&](F x, F y) {
        ++n;
        bool ok = sb(val(meters(x) * seconds(y)), x * y) && sb(hertz(x) * seconds(y), x * y) && sb(val(meters(x) / seconds(y)), x / y) && sb(meters(x) / meters(y), x / y) &&
                  sb(val(x / seconds(y)), x / y) && sb(val(F(1) / seconds(y)), F(1) / y) &&
                  sb(val(sqrt(meters(x))), std::sqrt(x)) && sb(val(cbrt(meters(x))), std::cbrt(x)) &&
                  sb(val(int_pow<2>(meters(x))), x * x) && sb(val(int_pow<1>(meters(x))), x) && sb(val(int_pow<0>(meters(x))), F(1));
        // int_pow<-1>, <3>, <-2>: the library's own repeated multiplication; compare with the exact power to a few ulps
        F p3 = val(int_pow<3>(meters(x))), e3 = x * x * x, pm2 = val(int_pow<-2>(meters(x))), em2 = F(1) / (x * x);
        auto close = [](F a, F b) { return (a != a && b != b) || a == b || std::fabs(a - b) <= 4 * std::numeric_limits<F>::epsilon() * std::fabs(b); };
        ok = ok && close(p3, e3) && close(pm2, em2) && float_pows_ok<F>(x);
        if (!ok) { ++mism; if (mism < 20) std::printf("{\"k\":\"pmis\",\"what\":\"float ops\",\"R\":\"%s\",\"x\":%s,\"y\":%s}\n", rep_name<F>(), fwire(x).c_str(), fwire(y).c_str()); }
    };
    F sp[] = {F(0), -F(0), F(1), F(-1), F(2), F(0.5), F(3), F(1e10), F(1e-10), std::numeric_limits<F>::infinity(), std::numeric_limits<F>::quiet_NaN(), std::numeric_limits<F>::max(), std::numeric_limits<F>::min(), std::numeric_limits<F>::denorm_min(), F(-8), F(27)};
    for (F x : sp) for (F y : sp) one(x, y);
    for (int i = 0; i < 200000; ++i) { F x = (F)std::ldexp((long double)(rng.next() >> 11) / 9007199254740992.0L, (int)(rng.next() % 60) - 30); F y = (F)std::ldexp((long double)(rng.next() >> 11) / 9007199254740992.0L, (int)(rng.next() % 60) - 30); if (rng.next() & 1) x = -x; if (rng.next() & 1) y = -y; one(x, y); }
    std::printf("{\"k\":\"psum\",\"what\":\"float_products\",\"R\":\"%s\",\"n\":%lld,\"mismatches\":%lld}\n", rep_name<F>(), n, mism);
}
}  // namespace auv
