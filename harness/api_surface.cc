// C20: one program over the public API, built against the multi-header tree (default) or against a generated single file
// (-DAUV_SINGLE_FILE, with only that file on the include path), for a rep class given by -DREP=... ; prints observable results.
#ifdef AUV_SINGLE_FILE
#include "au.hh"
#else
#include "au/au.hh"
#include "au/constants/speed_of_light.hh"
#include "au/units/celsius.hh"
#include "au/units/degrees.hh"
#include "au/units/feet.hh"
#include "au/units/hertz.hh"
#include "au/units/hours.hh"
#include "au/units/inches.hh"
#include "au/units/kelvins.hh"
#include "au/units/meters.hh"
#include "au/units/minutes.hh"
#include "au/units/radians.hh"
#include "au/units/seconds.hh"
#ifdef AUV_WITH_IO
#include "au/io.hh"
#endif
#endif
#include <chrono>
#include <cstdint>
#include <cstdio>
#include <limits>
#include <type_traits>
#ifdef AUV_WITH_IO
#include <sstream>
#endif
using namespace au;
#ifndef REP
#define REP int
#endif
typedef REP R;
template <typename T> void out(const char *what, T v) { std::printf("%s = %.17Lg\n", what, (long double)v); }
template <typename T> void outa(const char *what, T v) { std::printf("%s ~ %.10Lg\n", what, (long double)v); }  // libm results: compared to 10 digits
template <typename T> const char *tn() {
    return std::is_same<T, int8_t>::value ? "i8" : std::is_same<T, uint8_t>::value ? "u8" : std::is_same<T, int16_t>::value ? "i16" : std::is_same<T, uint16_t>::value ? "u16" :
           std::is_same<T, int32_t>::value ? "i32" : std::is_same<T, uint32_t>::value ? "u32" : std::is_same<T, int64_t>::value ? "i64" : std::is_same<T, uint64_t>::value ? "u64" :
           std::is_same<T, float>::value ? "f32" : std::is_same<T, double>::value ? "f64" : std::is_same<T, long double>::value ? "f80" : "?";
}
template <bool IsInt> struct IntOnly {
    template <typename R> static void run() {
        auto a = feet(R{7}), b = feet(R{3});
        out("mod", (a % b).in(feet)); std::printf("mod rep %s\n", tn<typename decltype(a % b)::Rep>());
        out("lossy 7ft->yd?", is_conversion_lossy(a, feet * mag<3>()));
        out("trunc 6ft->yd", will_conversion_truncate(feet(R{6}), feet * mag<3>()));
        out("ovf max ft->in", will_conversion_overflow(feet(std::numeric_limits<R>::max()), inches));
        out("coerce 7ft->yd", a.coerce_in(feet * mag<3>()));
        out("coerce 100ft->m", feet(R{100}).coerce_in(meters)); out("coerce 50in->(5/9)ft", inches(R{50}).coerce_in(feet * mag<5>() / mag<9>()));
        out("int div unblocked", (feet(R{100}) / unblock_int_div(seconds(R{7}))).in(feet / second));
        out("lossy<i8> 100ft", is_conversion_lossy<int8_t>(feet(R{100}), inches));
        out("lossy<u16> in", is_conversion_lossy<uint16_t>(feet(R{100}), inches));
    }
};
template <> struct IntOnly<false> {
    template <typename R> static void run() {
        out("ft->m", feet(R(2.5)).in(meters)); out("sqrt", sqrt(meters(R(2)) * meters(R(8))).in(meters)); out("round_in", round_in(inches, feet(R(1.26))));
        out("floor_as", floor_as(inches, feet(R(-1.26))).in(inches)); outa("sin 30deg", sin(degrees(R(30)))); outa("hypot", hypot(feet(R(3)), inches(R(48))).in(inches));
        out("ovf", will_conversion_overflow(meters(std::numeric_limits<R>::max()), milli(meters))); out("1/x", (R(1) / seconds(R(4))).in(hertz));
        out("c in m/s", SPEED_OF_LIGHT.in<R>(meters / second)); out("deg->rad", degrees(R(180)).in(radians));
    }
};
int main() {
    std::printf("rep %s\n", tn<R>());
    auto a = meters(R{5}), b = meters(R{3});
    out("add", (a + b).in(meters)); std::printf("add rep %s\n", tn<typename decltype(a + b)::Rep>());
    out("sub", (a - b).in(meters)); out("neg", (-a).in(meters)); std::printf("neg rep %s\n", tn<typename decltype(-a)::Rep>());
    out("scalar", (a * R{2}).in(meters)); out("lt", a < b); out("eq zero", (a - a) == ZERO);
    out("product", (a * seconds(R{2})).in(meters * seconds)); out("quotient same", (a / unblock_int_div(meters(R{1}))).in(UnitProductT<>{})); out("hz*s", hertz(R{4}) * seconds(R{2}));
    out("sizeof", sizeof(a)); out("int_pow", int_pow<2>(b).in(squared(meters)));
    out("mixed eq", feet(int64_t{1}) == inches(int64_t{12})); out("mixed add", (feet(int64_t{1}) + inches(int64_t{5})).in(inches));
    out("rep_cast", rep_cast<double>(a).in(meters)); out("as<long>", a.template as<long long>(meters).in(meters));
    out("point", (celsius_pt(20.0) - kelvins_pt(290.0)).in(kelvins)); out("point conv", celsius_pt(25.0).in(kelvins_pt)); out("point lt", celsius_pt(0) < kelvins_pt(274));
    std::chrono::duration<R, std::milli> d{R{5}};
    out("chrono", as_quantity(d).in(milli(seconds))); out("chrono cmp", d < seconds(int64_t{1}));
    out("common", (minutes(int64_t{2}) + hours(int64_t{1})).in(seconds)); out("inverse", inverse_as(micro(seconds), hertz(int32_t{250})).in(micro(seconds)));
    out("const", (R{2} * SPEED_OF_LIGHT).in(SPEED_OF_LIGHT)); out("representable", representable_in<R>(mag<300>()));
    std::printf("label %s | %s | %s | %s\n", unit_label(meters / squared(second)), unit_label(kilo(hertz)), unit_label(feet * mag<3>() / mag<7>()), unit_label(Celsius{}));
    IntOnly<std::is_integral<R>::value>::run<R>();
#ifdef AUV_WITH_IO
    std::ostringstream os; os << a << " ; " << feet(R{7}) / unblock_int_div(seconds(R{2})) << " ; " << celsius_pt(R{21}) << " ; " << ZERO;
    std::printf("stream %s\n", os.str().c_str());
#endif
    return 0;
}
