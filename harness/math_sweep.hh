// C15: unit-aware math functions.  Records for TLC: rounding results, inversions, angle conversions (with the exact ratio as a
// prime-power pack read out of the unit types); raw-twin comparisons for the <cmath> wrappers.
#pragma once
#include "constant_readout.hh"
#include "au/math.hh"
#include "au/units/meters.hh"
#include <cmath>
#include <utility>
#include <vector>
namespace auv {
using namespace au;
template <typename U1, typename U2> std::string ratio_pack() { return "[" + FactorsJson<decltype(unit_ratio(U1{}, U2{}))>::get() + "]"; }
template <typename A> bool beq(A a, A b) { return std::memcmp(&a, &b, sizeof(A) > 10 && std::is_floating_point<A>::value ? 10 : sizeof(A)) == 0 || (a != a && b != b); }
template <typename A, typename B> bool beq(A, B) { return false; }

template <typename S> std::vector<S> test_values(uint64_t seed, std::true_type /*integral*/) {
    std::vector<S> v; Rng rng(seed);
    for (long long x = -70; x <= 70; ++x) if (x >= (long long)std::numeric_limits<S>::lowest()) v.push_back((S)x);
    long long pts[] = {65535, 65536, -65536, 32767, -32768, 1000, 999, 1001, 12345, -12345, 100000, 86400, 3600};
    for (long long p : pts) if (p >= (long long)std::numeric_limits<S>::lowest() && p <= (long long)std::numeric_limits<S>::max()) v.push_back((S)p);
    for (int i = 0; i < 250; ++i) { long long x = (long long)(rng.next() % 131073) - 65536; if (x >= (long long)std::numeric_limits<S>::lowest() && x <= (long long)std::numeric_limits<S>::max()) v.push_back((S)x); }
    // integers at the edge of the floating types' integer range (odd values just below 2^24 and 2^53)
    long long edge[] = {8388609LL, 16777215LL, 16777217LL, 4503599627370497LL, 9007199254740991LL, 9007199254740993LL, -8388609LL, -4503599627370497LL, -9007199254740991LL};
    for (long long p : edge) if ((long double)p >= (long double)std::numeric_limits<S>::lowest() && (long double)p <= (long double)std::numeric_limits<S>::max()) v.push_back((S)p);
    return v;
}
template <typename S> std::vector<S> test_values(uint64_t seed, std::false_type) {
    std::vector<S> v; Rng rng(seed);
    S sp[] = {S(0), -S(0), S(0.5), S(-0.5), S(1.5), S(2.5), S(-2.5), S(0.49999999), S(1e6), S(-1e6), S(1) / S(3), S(123456.789), S(1e-9), S(7), S(-7), S(2.4999999), S(3.5000001)};
    for (S x : sp) v.push_back(x);
    // the last value below one half, the neighbours of the ties, odd integers in the last binade with unit spacing
    const S half = S(0.5), big = (S)std::ldexp((long double)1, std::numeric_limits<S>::digits - 1);
    S ed[] = {std::nextafter(half, S(0)), std::nextafter(half, S(1)), std::nextafter(S(1.5), S(0)), std::nextafter(S(2.5), S(3)), big + S(1), big + S(3), big * S(2) - S(1), big - half, big / S(2) + half};
    for (S x : ed) { v.push_back(x); v.push_back(-x); }
    for (int i = 0; i < 300; ++i) { S x = (S)std::ldexp((long double)(rng.next() >> 11) / 9007199254740992.0L, (int)(rng.next() % 40) - 8); if (rng.next() & 1) x = -x; v.push_back(x); if (i % 3 == 0) v.push_back((S)(std::floor(x) + S(0.5))); }
    return v;
}
template <typename U1, typename S, typename U2> void rounding(uint64_t seed) {
    const std::string mag = ratio_pack<U1, U2>();
    long long n = 0, incons = 0;
    for (S x : test_values<S>(seed, std::is_integral<S>{})) {
        AUV_INFLIGHT("rounding S=%s", rep_name<S>());
        auto q = make_quantity<U1>(x);
        auto f = floor_in(U2{}, q), c = ceil_in(U2{}, q), r = round_in(U2{}, q);
        ++n;
        // the _as forms and explicit-rep forms agree with the _in forms
        if (!beq(floor_as(U2{}, q).in(U2{}), f) || !beq(ceil_as(U2{}, q).in(U2{}), c) || !beq(round_as(U2{}, q).in(U2{}), r)) ++incons;
        // no unit change: exactly the std function applied to the value (in the floating type the std function works in)
        if (std::is_same<U1, U2>::value) {
            typedef decltype(std::round(x)) FR;
            if (!beq((FR)r, std::round(x)) || !beq((FR)f, std::floor(x)) || !beq((FR)c, std::ceil(x))) {
                ++incons;
                if (incons < 12) std::printf("{\"k\":\"mathmis\",\"what\":\"round/floor/ceil without a unit change differs from the std function\",\"R\":\"%s\",\"x\":%s,\"y\":%s}\n", rep_name<S>(), fwire((long double)x).c_str(), fwire((long double)r).c_str());
            }
        }
        if (std::fabs((long double)r) < 1e15L && ((long long)round_in<long long>(U2{}, q) != (long long)r || (long long)floor_as<long long>(U2{}, q).in(U2{}) != (long long)f)) ++incons;
        const char *fn[3] = {"floor", "ceil", "round"};
        decltype(f) res[3] = {f, c, r};
        for (int k = 0; k < 3; ++k)
            std::printf("{\"k\":\"round\",\"fn\":\"%s\",\"S\":\"%s\",\"x\":%s,\"mag\":%s,\"res\":%s}\n", fn[k], rep_name<S>(), anywire(x).c_str(), mag.c_str(), fwire(res[k]).c_str());
    }
    std::printf("{\"k\":\"mathsum\",\"what\":\"rounding\",\"n\":%lld,\"bad\":%lld}\n", n, incons);
}
// inversion between a "frequency-like" unit UQ and a "period-like" target UT, rep R (integral)
template <typename R, typename UT, typename UQ> void inversion(uint64_t seed) {
    using Prod = decltype(UT{} * UQ{});
    const std::string mag = "[" + FactorsJson<detail::MagT<Prod>>::get() + "]";
    long long n = 0, bad = 0;
    Rng rng(seed);
    for (long long v = 1; v <= 1000; ++v) {
        AUV_INFLIGHT("inversion R=%s v=%lld", rep_name<R>(), v);
        R inv = inverse_in(UT{}, make_quantity<UQ>((R)v));
        R back = inverse_in(UQ{}, make_quantity<UT>(inv));
        R inv2 = inverse_as(UT{}, make_quantity<UQ>((R)v)).in(UT{});
        ++n;
        if (back != (R)v || inv2 != inv) ++bad;
        if (bad <= 20 && (back != (R)v || inv2 != inv)) std::printf("{\"k\":\"mathmis\",\"what\":\"inverse round trip\",\"R\":\"%s\",\"n\":%lld,\"inv\":%s,\"back\":%s}\n", rep_name<R>(), v, dec((i128)inv).c_str(), dec((i128)back).c_str());
        if (v <= 40 || v % 37 == 0) std::printf("{\"k\":\"inverse\",\"R\":\"%s\",\"x\":%s,\"mag\":%s,\"res\":%s}\n", rep_name<R>(), wire((i128)v).c_str(), mag.c_str(), wire((i128)inv).c_str());
    }
    for (int i = 0; i < 60; ++i) {
        R x = (R)((i128)(R)rng.next() >> (rng.next() % (8 * sizeof(R) - 1)));
        if (x == 0) continue;
        R inv = inverse_in(UT{}, make_quantity<UQ>(x));
        std::printf("{\"k\":\"inverse\",\"R\":\"%s\",\"x\":%s,\"mag\":%s,\"res\":%s}\n", rep_name<R>(), wire((i128)x).c_str(), mag.c_str(), wire((i128)inv).c_str());
    }
    std::printf("{\"k\":\"mathsum\",\"what\":\"inversion\",\"n\":%lld,\"bad\":%lld}\n", n, bad);
}
// trigonometric wrappers: the std function applied to the value in radians (promoted rep), result unit for the inverse functions
template <typename U, typename S> void trig(uint64_t seed) {
    using P = std::conditional_t<std::is_floating_point<S>::value, S, double>;
    const std::string mag = ratio_pack<U, Radians>();
    long long n = 0, bad = 0;
    for (S x : test_values<S>(seed ^ 77, std::is_integral<S>{})) {
        auto q = make_quantity<U>(x);
        P y = q.template in<P>(radians);
        ++n;
        if (!beq(sin(q), std::sin(y)) || !beq(cos(q), std::cos(y)) || !beq(tan(q), std::tan(y))) ++bad;
        std::printf("{\"k\":\"angle\",\"S\":\"%s\",\"P\":\"%s\",\"x\":%s,\"mag\":%s,\"y\":%s}\n", rep_name<S>(), rep_name<P>(), anywire(x).c_str(), mag.c_str(), fwire(y).c_str());
    }
    std::printf("{\"k\":\"mathsum\",\"what\":\"trig\",\"n\":%lld,\"bad\":%lld}\n", n, bad);
}
// other wrappers, raw twin on the operands expressed in the common unit
template <typename U1, typename U2, typename F> void wrappers(uint64_t seed) {
    using U = CommonUnitT<U1, U2>;
    long long n = 0, bad = 0;
    auto vals = test_values<F>(seed ^ 5, std::false_type{});
    vals.push_back(std::numeric_limits<F>::quiet_NaN()); vals.push_back(std::numeric_limits<F>::infinity());
    // consecutive pairs of the value list, then a grid of halves and small integers (exact ties of remainder / fmod, equal operands, signs)
    std::vector<std::pair<F, F>> pairs;
    for (size_t i = 0; i + 1 < vals.size(); ++i) pairs.push_back({vals[i], vals[i + 1]});
    for (int xi = -17; xi <= 17; ++xi) for (int yi = -6; yi <= 6; ++yi) if (yi != 0) { pairs.push_back({F(xi) / 2, F(yi) / 2}); pairs.push_back({F(xi), F(yi)}); pairs.push_back({F(xi) * F(1.5), F(yi)}); }
    for (const auto &pr : pairs) {
        F x = pr.first, y = pr.second;
        auto a = make_quantity<U1>(x); auto b = make_quantity<U2>(y);
        F xa = a.in(U{}), yb = b.in(U{});
        ++n;
        bool ok = beq(hypot(a, b).in(U{}), std::hypot(xa, yb)) && std::is_same<typename decltype(hypot(a, b))::Unit, U>::value;
        ok = ok && beq(fmod(a, b).in(U{}), std::fmod(xa, yb)) && beq(remainder(a, b).in(U{}), std::remainder(xa, yb));
        ok = ok && beq(abs(a).in(U1{}), std::abs(x)) && beq(copysign(a, b).in(U1{}), std::copysign(x, y)) && beq(copysign(a, y).in(U1{}), std::copysign(x, y)) && beq(copysign(x, b), std::copysign(x, y));
        ok = ok && (isnan(a) == std::isnan(x));
        ok = ok && beq(arctan2(a, b).in(radians), std::atan2(xa, yb)) && std::is_same<typename decltype(arctan2(a, b))::Unit, Radians>::value;
        ok = ok && beq(arcsin(x).in(radians), std::asin(x)) && beq(arccos(x).in(radians), std::acos(x)) && beq(arctan(x).in(radians), std::atan(x));
        if (x == x && y == y) {
            ok = ok && beq(min(a, b).in(U{}), std::min(xa, yb)) && beq(max(a, b).in(U{}), std::max(xa, yb));
            ok = ok && beq(clamp(a, b, b).in(U{}), (xa < yb) ? yb : ((yb < xa) ? yb : xa));
            ok = ok && beq(min(a, a).in(U1{}), x) && beq(max(b, b).in(U2{}), y);
        }
        if (!ok) { ++bad; if (bad <= 20) std::printf("{\"k\":\"mathmis\",\"what\":\"cmath wrapper\",\"R\":\"%s\",\"x\":%s,\"y\":%s}\n", rep_name<F>(), fwire(x).c_str(), fwire(y).c_str()); }
    }
    std::printf("{\"k\":\"mathsum\",\"what\":\"wrappers\",\"n\":%lld,\"bad\":%lld}\n", n, bad);
}
template <bool Signed> struct AbsCheck {
    template <typename R> static bool ok(R x) { auto r = abs(meters(x)); return std::is_same<typename decltype(r)::Rep, decltype(std::abs(x))>::value && (i128)r.in(meters) == (i128)std::abs(x); }
};
template <> struct AbsCheck<false> { template <typename R> static bool ok(R) { return true; } };
// integral reps through the wrappers that accept them: the std function on the stored value, in the std function's own result type
template <typename R> void int_wrappers() {
    long long n = 0, bad = 0;
    const long long lo = (long long)std::numeric_limits<R>::lowest(), hi = (long long)std::numeric_limits<R>::max();
    std::vector<long long> vals;
    if (sizeof(R) <= 2) for (long long v = lo; v <= hi; ++v) vals.push_back(v);
    else { long long pts[] = {lo, lo + 1, -65536, -32769, -32768, -129, -128, -2, -1, 0, 1, 2, 127, 128, 32767, 32768, 65535, 65536, hi - 1, hi}; for (long long p : pts) if (p >= lo && p <= hi) vals.push_back(p); }
    for (long long v : vals) {
        R x = (R)v; auto a = meters(x);
        ++n;
        bool ok = true;
        if (!(sizeof(R) >= 4 && v == lo)) ok = ok && AbsCheck<std::is_signed<R>::value>::ok(x);            // std::abs(INT_MIN) is undefined
        R y = (R)((v % 7) + 1);
        auto b = meters(y);
        ok = ok && (i128)min(a, b).in(meters) == (i128)std::min(x, y) && (i128)max(a, b).in(meters) == (i128)std::max(x, y) && std::is_same<typename decltype(min(a, b))::Rep, R>::value;
        ok = ok && (i128)clamp(a, b, b).in(meters) == (i128)y && std::is_same<typename decltype(clamp(a, b, b))::Rep, R>::value;
        ok = ok && beq(fmod(a, b).in(meters), std::fmod(x, y)) && beq(remainder(a, b).in(meters), std::remainder(x, y)) && beq(hypot(a, b).in(meters), std::hypot(x, y));
        ok = ok && beq(copysign(a, b).in(meters), std::copysign(x, y));
        if (!ok) { ++bad; if (bad <= 20) std::printf("{\"k\":\"mathmis\",\"what\":\"integral rep through abs/min/max/clamp/fmod/remainder/hypot/copysign\",\"R\":\"%s\",\"x\":%s,\"y\":%s}\n", rep_name<R>(), fwire((long double)x).c_str(), fwire((long double)y).c_str()); }
    }
    std::printf("{\"k\":\"mathsum\",\"what\":\"int wrappers\",\"n\":%lld,\"bad\":%lld}\n", n, bad);
}
}  // namespace auv
