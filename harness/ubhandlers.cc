// Own implementation of the UBSan *minimal runtime* entry points: no de-duplication, just a flag
// that the logger clears before and reads after the public call in progress (DESIGN 5.5).
extern "C" { volatile int au_verif_ub_flag = 0; }
#define H(name) extern "C" void __ubsan_handle_##name##_minimal() { au_verif_ub_flag = 1; } \
                extern "C" void __ubsan_handle_##name##_minimal_abort() { au_verif_ub_flag = 1; }
H(type_mismatch) H(alignment_assumption) H(add_overflow) H(sub_overflow) H(mul_overflow) H(negate_overflow) H(divrem_overflow)
H(shift_out_of_bounds) H(out_of_bounds) H(builtin_unreachable) H(missing_return) H(vla_bound_not_positive) H(float_cast_overflow)
H(load_invalid_value) H(invalid_builtin) H(invalid_objc_cast) H(function_type_mismatch) H(implicit_conversion) H(nonnull_arg) H(nonnull_return)
H(nullability_arg) H(nullability_return) H(pointer_overflow) H(cfi_check_fail)
