// C11: read-out of representable_in / get_value / classification for one magnitude and all 11 reps.
#pragma once
#include "au/au.hh"
#include "wire.hh"
namespace auv {
using namespace au;
template <bool Rep> struct GetIf {
    template <typename T, typename M> static T v(M m) { return get_value<T>(m); }
};
template <> struct GetIf<false> {
    template <typename T, typename M> static T v(M) { return T(0); }
};
template <typename T, typename M>
void mag_one(const char *id, M m) {
    constexpr bool rep = representable_in<T>(M{});
    T v = GetIf<rep>::template v<T>(m);
    std::printf("{\"k\":\"mag\",\"id\":\"%s\",\"T\":\"%s\",\"rep\":%d,\"%s\":%s}\n", id, rep_name<T>(), (int)rep,
                std::is_floating_point<T>::value ? "fval" : "ival", anywire(v).c_str());
}
template <typename M, typename NumE, typename DenE, typename IntE>
void mag_all(const char *id, M m, NumE, DenE, IntE) {
    mag_one<int8_t>(id, m); mag_one<uint8_t>(id, m); mag_one<int16_t>(id, m); mag_one<uint16_t>(id, m);
    mag_one<int32_t>(id, m); mag_one<uint32_t>(id, m); mag_one<int64_t>(id, m); mag_one<uint64_t>(id, m);
    mag_one<float>(id, m); mag_one<double>(id, m); mag_one<long double>(id, m);
    constexpr bool isint = is_integer(M{}), israt = is_rational(M{});
    constexpr bool num_ok = (numerator(M{}) == NumE{}), den_ok = (denominator(M{}) == DenE{}), int_ok = (integer_part(M{}) == IntE{});
    constexpr bool self_eq = (M{} == M{}) && !(M{} != M{}), split_ok = (numerator(M{}) / denominator(M{}) == M{});
    std::printf("{\"k\":\"cls\",\"id\":\"%s\",\"isint\":%d,\"israt\":%d,\"num_ok\":%d,\"den_ok\":%d,\"int_ok\":%d,\"self_eq\":%d,\"split_ok\":%d}\n",
                id, (int)isint, (int)israt, (int)num_ok, (int)den_ok, (int)int_ok, (int)self_eq, (int)split_ok);
}
}  // namespace auv
