---- MODULE Gen_Labels ----
(* Expression universe for C18: everything C02 emits (all library units x powers, scalings, all prefixes; depth-2 products and   *)
(* quotients; scaled-twice forms), user-style derived units with and without their own label, and scalings by every integer class   *)
(* up to 2^64-1 and by rationals.                                                                                                    *)
EXTENDS Units, Catalogue, Json, IOUtils
CONSTANTS Ids2
Leaf(S) == {[op |-> "unit", id |-> i] : i \in S}
Exps == {<<-1, 1>>, <<2, 1>>, <<1, 2>>, <<-2, 1>>, <<3, 1>>, <<1, 3>>, <<-3, 2>>, <<10, 1>>, <<-12, 7>>}
Exps2 == {<<-1, 1>>, <<2, 1>>, <<1, 2>>}
Mags == {<<BP(4, 1, 1)>>, <<BP(6, -1, 1)>>, <<BP(7, 1, 1)>>, <<BP(4, 1, 2)>>, <<BP(4, 3, 1), BP(10, -2, 1)>>, <<BP(6, 2, 1), BP(7, -1, 1)>>}
BigMags == { <<BP(4, 7, 1)>>, <<BP(4, 8, 1)>>, <<BP(4, 16, 1)>>, <<BP(4, 31, 1)>>, <<BP(4, 32, 1)>>, <<BP(4, 63, 1)>>, <<BP(4, 64, 1)>>, <<BP(4, 70, 1)>>,
             <<BP(6, 1, 1), BP(10, 1, 1), BP(34, 1, 1), BP(514, 1, 1), BP(1282, 1, 1), BP(131074, 1, 1), BP(13400834, 1, 1)>>,        \* 2^64 - 1
             <<BP(4, 1, 1), BP(10, 19, 1)>>, <<BP(10, 19, 1), BP(4, 0 + 1, 1)>>, <<BP(20, 1, 1), BP(14, -9, 1)>>, <<BP(4, -64, 1)>>, <<BP(4, 10, 1), BP(6, -40, 1)>>,
             <<BP(6, 40, 1)>>, <<BP(6, 41, 1)>>, <<BP(2000000014, 1, 1)>>, <<BP(2000000014, 2, 1)>> }
Mags2 == {<<BP(4, 1, 1)>>, <<BP(6, -1, 1)>>, <<BP(7, 1, 1)>>}
AllPrefs == DOMAIN PrefixDef
Prefs2 == {"kilo", "milli", "kibi"}
W(S, X, M, Q) == Leaf(S) \cup {[op |-> "pow", x |-> a, r |-> r] : a \in Leaf(S), r \in X}
                     \cup {[op |-> "scale", x |-> a, m |-> m] : a \in Leaf(S), m \in M}
                     \cup {[op |-> "prefix", x |-> a, p |-> p] : a \in Leaf(S), p \in Q}
D1All == W(CatIds, Exps, Mags, AllPrefs)
D1s == W(Ids2, Exps2, Mags2, Prefs2)
D2 == {[op |-> o, l |-> a, r |-> b] : o \in {"mul", "div"}, a \in D1s, b \in D1s}
Big == {[op |-> "scale", x |-> a, m |-> m] : a \in Leaf(Ids2), m \in {x \in BigMags : \A i \in 1..(Len(x) - 1) : x[i].b < x[i + 1].b}}
D3 == {[op |-> "div", l |-> [op |-> "mul", l |-> a, r |-> b], r |-> [op |-> "mul", l |-> c, r |-> [op |-> "pow", x |-> a, r |-> <<2, 1>>]]] : a \in Leaf(Ids2), b \in Leaf(Ids2), c \in Leaf(Ids2)}
VARIABLES e
Init == e \in D1All \cup D2 \cup Big \cup D3
Next == UNCHANGED e
Emit == PrintT(<<"CASE", ToJson([e |-> e, excluded |-> Broken(e)])>>)
====
