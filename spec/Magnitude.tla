----------------------------- MODULE Magnitude -----------------------------
(***************************************************************************)
(* Layer A model of get_value_result<T> for integral T (magnitude.hh:      *)
(* base_power_value, checked_int_pow, product, safe_to_cast_to) on the     *)
(* scaled machine: Widen<T> is the WBits-bit integer of T's signedness.    *)
(* One action per loop iteration of checked_int_pow and of product.        *)
(* Property level (C11): outcome = OK exactly when the exact value of the  *)
(* magnitude fits T, and then the value is exact; no step overflows.       *)
(***************************************************************************)
EXTENDS CxxInt

CONSTANTS WBits,           \* width of intmax_t / uintmax_t on the scaled machine
          Primes, MaxExp,
          GuardBaseCast    \* TRUE: a base that does not fit Widen<T> yields ERR_CANNOT_FIT (after fix D9)
                           \* FALSE: static_cast<Widen<T>>(base) wraps (the tree as found)

TReps == {Rep(4, TRUE), Rep(4, FALSE), Rep(6, TRUE), Rep(6, FALSE), Rep(WBits, TRUE), Rep(WBits, FALSE)}
Mags == { <<[p |-> p, a |-> a]>> : p \in Primes, a \in 1..MaxExp }
        \cup { <<[p |-> p, a |-> a], [p |-> q, a |-> b]>> : p \in Primes, q \in Primes, a \in 1..MaxExp, b \in 1..MaxExp }
\* exact value, saturating at Cap (far above every rep's maximum) so that TLC's own 32-bit integers never overflow
Cap == 32768
SatMul(a, b) == IF a * b > Cap THEN Cap ELSE a * b
RECURSIVE SatPow(_,_)
SatPow(p, a) == IF a = 0 THEN 1 ELSE SatMul(p, SatPow(p, a - 1))
RECURSIVE ExactVal(_)
ExactVal(m) == IF m = <<>> THEN 1 ELSE SatMul(SatPow(Head(m).p, Head(m).a), ExactVal(Tail(m)))

VARIABLES t, m, pc, i, base, exp, res, vals, outcome, value, overflowed
vars == <<t, m, pc, i, base, exp, res, vals, outcome, value, overflowed>>
W == Rep(WBits, t.s)
WMax == MaxOf(W)

Init == /\ t \in TReps /\ m \in {x \in Mags : Len(x) = 1 \/ x[1].p < x[2].p}
        /\ pc = "next_bp" /\ i = 1 /\ base = 0 /\ exp = 0 /\ res = 1 /\ vals = <<>>
        /\ outcome = "none" /\ value = 0 /\ overflowed = FALSE

Fail(o) == outcome' = o /\ pc' = "done" /\ UNCHANGED <<t, m, i, base, exp, res, vals, value, overflowed>>

\* base_power_value: cast the base into Widen<T>, start checked_int_pow
NextBP == /\ pc = "next_bp"
          /\ IF i > Len(m) THEN pc' = "product" /\ i' = 1 /\ res' = 1 /\ UNCHANGED <<t, m, base, exp, vals, outcome, value, overflowed>>
             ELSE IF GuardBaseCast /\ ~InRange(W, m[i].p) THEN Fail("ERR_CANNOT_FIT")
             ELSE /\ base' = Wrap(W, m[i].p) /\ exp' = m[i].a /\ res' = 1 /\ pc' = "pow_odd"
                  /\ UNCHANGED <<t, m, i, vals, outcome, value, overflowed>>
\* checked_int_pow, first half of the loop body
PowOdd == /\ pc = "pow_odd"
          /\ IF exp = 0 THEN /\ vals' = Append(vals, res) /\ i' = i + 1 /\ pc' = "next_bp"
                             /\ UNCHANGED <<t, m, base, exp, res, outcome, value, overflowed>>
             ELSE IF exp % 2 = 1 /\ base > CDiv(WMax, res) THEN Fail("ERR_CANNOT_FIT")
             ELSE /\ res' = (IF exp % 2 = 1 THEN Wrap(W, res * base) ELSE res)
                  /\ overflowed' = (overflowed \/ (exp % 2 = 1 /\ ~InRange(W, res * base)))
                  /\ exp' = exp \div 2 /\ pc' = "pow_sq"
                  /\ UNCHANGED <<t, m, i, base, vals, outcome, value>>
\* checked_int_pow, second half: squaring the base
PowSq == /\ pc = "pow_sq"
         /\ IF base # 0 /\ base > CDiv(WMax, base) THEN
                 (IF exp = 0 THEN /\ vals' = Append(vals, res) /\ i' = i + 1 /\ pc' = "next_bp"
                                  /\ UNCHANGED <<t, m, base, exp, res, outcome, value, overflowed>>
                  ELSE Fail("ERR_CANNOT_FIT"))
            ELSE /\ base' = Wrap(W, base * base) /\ overflowed' = (overflowed \/ ~InRange(W, base * base))
                 /\ pc' = "pow_odd" /\ UNCHANGED <<t, m, i, exp, res, vals, outcome, value>>
\* product(): one factor per step
Product == /\ pc = "product"
           /\ IF i > Len(vals) THEN pc' = "cast" /\ UNCHANGED <<t, m, i, base, exp, res, vals, outcome, value, overflowed>>
              ELSE IF vals[i] > 1 /\ res > CDiv(WMax, vals[i]) THEN Fail("ERR_CANNOT_FIT")
              ELSE /\ res' = Wrap(W, res * vals[i]) /\ overflowed' = (overflowed \/ ~InRange(W, res * vals[i]))
                   /\ i' = i + 1 /\ UNCHANGED <<t, m, pc, base, exp, vals, outcome, value>>
\* safe_to_cast_to<T>
Cast == /\ pc = "cast"
        /\ IF InRange(t, res) THEN outcome' = "OK" /\ value' = res ELSE outcome' = "ERR_CANNOT_FIT" /\ value' = 0
        /\ pc' = "done" /\ UNCHANGED <<t, m, i, base, exp, res, vals, overflowed>>
Next == NextBP \/ PowOdd \/ PowSq \/ Product \/ Cast \/ (pc = "done" /\ UNCHANGED vars)
Spec == Init /\ [][Next]_vars

Done == pc = "done"
RepresentableExactly == Done => ((outcome = "OK") = (ExactVal(m) <= MaxOf(t)))
ValueExact == (Done /\ outcome = "OK") => value = ExactVal(m)
NoIntermediateOverflow == ~overflowed
=============================================================================
