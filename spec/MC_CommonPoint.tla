--------------------------- MODULE MC_CommonPoint ---------------------------
(* Layer A for C10: all pairs and triples (every permutation, one repetition) over 8 model point units with     *)
(* rational scales and rational origins (positive, zero, negative; origins expressed in different units).       *)
EXTENDS CommonPointUnit, FiniteSetsExt
CONSTANT MaxLen
D1 == <<BP(-95, 1, 1)>>
ModelCat == [ P1 |-> [dim |-> D1, mag |-> <<>>, origin |-> <<0, 1>>],                                  \* kelvins-like
              P2 |-> [dim |-> D1, mag |-> <<>>, origin |-> <<5463, 20>>],                              \* celsius-like: 27315 * 1/100
              P3 |-> [dim |-> D1, mag |-> <<BP(6, -2, 1), BP(10, 1, 1)>>, origin |-> <<45967, 180>>],  \* fahrenheit-like: 5/9, 45967 * 1/180
              P4 |-> [dim |-> D1, mag |-> <<BP(4, -1, 1)>>, origin |-> <<1, 3>>],                      \* scale 1/2, origin 1/3
              P5 |-> [dim |-> D1, mag |-> <<BP(6, 1, 1)>>, origin |-> <<-7, 2>>],                      \* scale 3, origin -7/2
              P6 |-> [dim |-> D1, mag |-> <<BP(4, -2, 1), BP(10, -2, 1)>>, origin |-> <<5463, 20>>],   \* scale 1/100, celsius origin as 5463 * 1/20
              P7 |-> [dim |-> D1, mag |-> <<>>, origin |-> <<5463, 20>>],                              \* same scale and origin as P2, origin written 546300 * 1/2000
              P8 |-> [dim |-> D1, mag |-> <<BP(6, -2, 1), BP(10, 1, 1)>>, origin |-> <<0, 1>>] ]       \* rankine-like
ModelOrg == [ P1 |-> [c |-> 0, u |-> <<>>], P2 |-> [c |-> 27315, u |-> <<BP(4, -2, 1), BP(10, -2, 1)>>],
              P3 |-> [c |-> 45967, u |-> <<BP(4, -2, 1), BP(6, -2, 1), BP(10, -1, 1)>>],
              P4 |-> [c |-> 1, u |-> <<BP(6, -1, 1)>>], P5 |-> [c |-> -7, u |-> <<BP(4, -1, 1)>>],
              P6 |-> [c |-> 5463, u |-> <<BP(4, -2, 1), BP(10, -1, 1)>>],
              P7 |-> [c |-> 546300, u |-> <<BP(4, -4, 1), BP(10, -3, 1)>>], P8 |-> [c |-> 0, u |-> <<>>] ]
ModelPre == [ kilo |-> <<BP(4, 3, 1), BP(10, 3, 1)>> ]
Ids == {"P1", "P2", "P3", "P4", "P5", "P6", "P7", "P8"}
N(i) == [k |-> "named", id |-> i]
VARIABLES us, perm
Lists == UNION { [1..n -> Ids] : n \in 2..MaxLen }
Init == \E f \in Lists : us = [i \in DOMAIN f |-> N(f[i])] /\ perm = us
Permute == \E p \in Permutations(1..Len(us)) : perm' = [i \in 1..Len(us) |-> us[p[i]]] /\ UNCHANGED us
Repeat == \E i \in 1..Len(us) : perm' = Append(us, us[i]) /\ UNCHANGED us
Next == Permute \/ Repeat
Spec == Init /\ [][Next]_<<us, perm>>
Ok == ~AnyBroken(us)                                   \* P2 / P7: distinct types the gauntlet cannot separate
AffineIntegral == Ok => \A i \in 1..Len(us) : LET a == CoefA(us, i)  b == CoefB(us, i) IN
                           RIsInt(a) /\ a[1] >= 1 /\ RIsInt(b) /\ b[1] >= 0
Symmetric == Ok => CPAlgo(perm) = CPAlgo(us)
IsAnInputWhenPossible == (Ok /\ \E i \in 1..Len(us) : PointEquiv(us[i], CPScale(us), CPOrig(us))) => \E i \in 1..Len(us) : CPAlgo(us) = us[i]
OriginIsMinimum == Ok => \A i \in 1..Len(us) : ~RLess(OriginVal(us[i]), CPOrig(us))
=============================================================================
