---- MODULE Gen_Wrapper ----
(* the (operator, rep) -> result-rep table of the raw operators, emitted for the compile-time decltype assertions of C13 *)
EXTENDS Wrapper
VARIABLES op, r
Init == op \in Ops /\ r \in AllReps /\ Defined(op, r)
Next == UNCHANGED <<op, r>>
Emit == PrintT(<<"CASE", ToJson([op |-> op, R |-> r, rr |-> ResultRep(op, r)])>>)
====
