CONSTANTS Cat <- CatDef Pre <- PrefixDef
INIT Init
NEXT Next
INVARIANT Emit
