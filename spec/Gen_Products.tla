---- MODULE Gen_Products ----
(* C14: product / quotient / power actions of the type-state machine.  For every ordered pair of unit expressions the     *)
(* specification gives the denotation of the product and of the quotient, whether they collapse to a raw number           *)
(* (denotation = the unitless unit), whether the pair is quantity-equivalent (integer-division guard), and for each      *)
(* single unit its powers/roots and whether it is dimensionless / exactly unitless.                                       *)
EXTENDS Units, Catalogue, Json, IOUtils
U(i) == [op |-> "unit", id |-> i]
Mul(a, b) == [op |-> "mul", l |-> a, r |-> b]
Div(a, b) == [op |-> "div", l |-> a, r |-> b]
PowE(a, n, d) == [op |-> "pow", x |-> a, r |-> <<n, d>>]
Sc(a, m) == [op |-> "scale", x |-> a, m |-> m]
Pf(p, a) == [op |-> "prefix", p |-> p, x |-> a]
Tier == IF "TIER" \in DOMAIN IOEnv THEN IOEnv.TIER ELSE "quick"
Core == { U("Meters"), U("Feet"), U("Inches"), U("Seconds"), U("Minutes"), U("Hertz"), U("Grams"), U("Radians"), U("Degrees"), U("Kelvins"), U("Celsius"),
          U("Unos"), U("Percent"), U("Bits"), U("Newtons"), U("Joules"), U("Watts"), U("Amperes"), U("Volts"),
          Div(U("Meters"), U("Seconds")), PowE(U("Seconds"), -1, 1), Sc(U("Feet"), <<BP(6, 1, 1)>>), Sc(U("Inches"), <<BP(4, 2, 1), BP(6, 1, 1)>>),
          Pf("kilo", U("Hertz")), Pf("milli", U("Seconds")), Pf("kilo", U("Meters")), Div(U("Joules"), U("Newtons")) }
Exprs == IF Tier = "quick" THEN Core ELSE Core \cup {U(i) : i \in CatIds}
AsSet(f) == {[b |-> k, n |-> f[k][1], d |-> f[k][2]] : k \in DOMAIN f}
Empty(f) == DOMAIN f = {}
VARIABLES e1, e2
Init == e1 \in Exprs /\ e2 \in Exprs
Next == UNCHANGED <<e1, e2>>
Emit == PrintT(<<"CASE", ToJson([e1 |-> e1, e2 |-> e2,
          pdim |-> AsSet(DenDim(Mul(e1, e2))), pmag |-> AsSet(DenMag(Mul(e1, e2))), pcollapse |-> Empty(DenDim(Mul(e1, e2))) /\ Empty(DenMag(Mul(e1, e2))),
          qdim |-> AsSet(DenDim(Div(e1, e2))), qmag |-> AsSet(DenMag(Div(e1, e2))), qcollapse |-> Empty(DenDim(Div(e1, e2))) /\ Empty(DenMag(Div(e1, e2))),
          equiv |-> DenDim(e1) = DenDim(e2) /\ DenMag(e1) = DenMag(e2),
          dimless1 |-> Empty(DenDim(e1)), unitless1 |-> Empty(DenDim(e1)) /\ Empty(DenMag(e1)), mag1 |-> AsSet(DenMag(e1)),
          broken |-> Broken(Mul(e1, e2)) \/ Broken(Div(e1, e2))])>>)
====
