---------------------------- MODULE PointPipeline ----------------------------
(***************************************************************************)
(* Layer A model for C09: QuantityPoint::in<NewRep>(NewUnit) as written    *)
(* in quantity_point.hh, on the scaled machine of CxxInt.                  *)
(*                                                                         *)
(*   CalcRep = IntermediateRep<Rep, NewRep>  (common type, made signed iff *)
(*             NewRep is signed)                                           *)
(*   Cast      rep_cast<CalcRep>(x)                                        *)
(*   Displace  q - rep_cast<CalcRep>(OriginDisplacement<Unit, NewUnit>)    *)
(*             : a mixed-unit subtraction -- both operands are scaled to   *)
(*             the common unit cu of (Unit, displacement unit) in CalcRep, *)
(*             the raw '-' yields the promoted rep                         *)
(*   Convert   .in<NewRep>(NewUnit): static_cast to the common type with   *)
(*             NewRep, multiply by N then divide by D (cu / NewUnit = N/D),*)
(*             static_cast to NewRep                                       *)
(*                                                                         *)
(* A point unit is <<sn, sd, on, od>>: scale sn/sd of the base unit and    *)
(* origin at on/od base units; the origin is *written* in the unit 1/od    *)
(* (as Celsius' origin is written in centi-kelvins), so a displacement     *)
(* lives in the unit 1/lcm(od_i, od_j).                                    *)
(* Property level: the exact affine image (x*s_i + o_i - o_j) / s_j,       *)
(* whenever it is an integer of NewRep and the intermediates x*k1, d*kd    *)
(* and their difference fit CalcRep (and the product by N fits the type    *)
(* the conversion multiplies in): no UB, no wrap, exact result.            *)
(***************************************************************************)
EXTENDS CxxInt
CONSTANTS RepsP, PUnitsA           \* the reps; the point units <<sn, sd, on, od>>
Lcm(a, b) == (a * b) \div Gcd(a, b)
MakeSigned(r) == Rep(r.b, TRUE)
CalcRepOf(r, rn) == LET c == CommonType(r, rn) IN IF rn.s THEN MakeSigned(c) ELSE c
\* displacement unit 1/L, L = lcm(od_i, od_j); displacement value d = (o_j - o_i) * L   (an integer)
DL(ui, uj) == Lcm(ui[4], uj[4])
DVal(ui, uj) == (uj[3] * DL(ui, uj)) \div uj[4] - (ui[3] * DL(ui, uj)) \div ui[4]
\* common unit of Unit (sn/sd) and 1/L:  gcd(sn*L, sd) / (sd*L);  k1 = Unit / cu, kd = (1/L) / cu
CuG(ui, uj) == Gcd(ui[1] * DL(ui, uj), ui[2])
K1P(ui, uj) == (ui[1] * DL(ui, uj)) \div CuG(ui, uj)
KdP(ui, uj) == ui[2] \div CuG(ui, uj)
\* cu / NewUnit = (CuG / (sd_i * L)) / (sn_j / sd_j) = N / D in lowest terms
CN(ui, uj) == (CuG(ui, uj) * uj[2]) \div Gcd(CuG(ui, uj) * uj[2], ui[2] * DL(ui, uj) * uj[1])
CD(ui, uj) == (ui[2] * DL(ui, uj) * uj[1]) \div Gcd(CuG(ui, uj) * uj[2], ui[2] * DL(ui, uj) * uj[1])

VARIABLES r, rn, ui, uj, x, pc, q, dq, dif, res, flag
vars == <<r, rn, ui, uj, x, pc, q, dq, dif, res, flag>>
Calc == CalcRepOf(r, rn)
Init == /\ r \in RepsP /\ rn \in RepsP /\ ui \in PUnitsA /\ uj \in PUnitsA /\ ui # uj
        /\ x \in ValuesOf(r) /\ pc = "start" /\ q = 0 /\ dq = 0 /\ dif = [v |-> 0, rep |-> r] /\ res = 0 /\ flag = FALSE
Cast == /\ pc = "start" /\ q' = Wrap(Calc, x) /\ dq' = Wrap(Calc, DVal(ui, uj))
        /\ flag' = (~InRange(Calc, x) \/ ~InRange(Calc, DVal(ui, uj)))
        /\ pc' = "cast" /\ UNCHANGED <<r, rn, ui, uj, x, dif, res>>
Displace == /\ pc = "cast"
            /\ LET a == RawBin("*", Calc, q, Calc, K1P(ui, uj))  b == RawBin("*", Calc, dq, Calc, KdP(ui, uj))
                   aa == Wrap(Calc, a.v)  bb == Wrap(Calc, b.v)
                   s == IF DVal(ui, uj) = 0 THEN [v |-> aa, rep |-> Calc, ub |-> FALSE, wrapped |-> FALSE] ELSE RawBin("-", Calc, aa, Calc, bb) IN
                 /\ dif' = [v |-> s.v, rep |-> s.rep]
                 /\ flag' = (flag \/ a.ub \/ b.ub \/ a.wrapped \/ b.wrapped \/ ~InRange(Calc, a.v) \/ ~InRange(Calc, b.v) \/ s.ub \/ s.wrapped
                             \/ ~InRange(Calc, K1P(ui, uj)) \/ ~InRange(Calc, KdP(ui, uj)))
            /\ pc' = "displaced" /\ UNCHANGED <<r, rn, ui, uj, x, q, dq, res>>
Convert == /\ pc = "displaced"
           /\ LET c == CommonType(dif.rep, rn)
                  v0 == Wrap(c, dif.v)
                  m == RawBin("*", c, v0, c, CN(ui, uj))
                  dv == RawBin("/", m.rep, m.v, m.rep, CD(ui, uj)) IN
                /\ res' = Wrap(rn, dv.v)
                /\ flag' = (flag \/ ~InRange(c, dif.v) \/ m.ub \/ m.wrapped \/ dv.ub \/ ~InRange(rn, dv.v) \/ ~InRange(m.rep, CN(ui, uj)) \/ ~InRange(m.rep, CD(ui, uj)))
           /\ pc' = "done" /\ UNCHANGED <<r, rn, ui, uj, x, q, dq, dif>>
Next == Cast \/ Displace \/ Convert \/ (pc = "done" /\ UNCHANGED vars)
Spec == Init /\ [][Next]_vars
--------------------------------------------------------------------------------
(* exact affine image: (x * sn_i/sd_i + on_i/od_i - on_j/od_j) / (sn_j/sd_j)  as num/den *)
ENum == (x * ui[1] * ui[4] * uj[4] + ui[3] * ui[2] * uj[4] - uj[3] * ui[2] * ui[4]) * uj[2]
EDen == ui[2] * ui[4] * uj[4] * uj[1]
ExactInt == ENum % EDen = 0
Exact == ENum \div EDen
(* the claim's domain, stated on exact integers only (no reference to the machine steps).  "The reps used": the wider of the   *)
(* two reps by the usual arithmetic conversions, made signed when the destination is -- restated here, apart from CalcRepOf  *)
DomRep == LET c == CommonType(r, rn) IN IF rn.s THEN Rep(c.b, TRUE) ELSE c
I1 == x * K1P(ui, uj)
I2 == DVal(ui, uj) * KdP(ui, uj)
InDomain == /\ InRange(DomRep, x) /\ InRange(DomRep, DVal(ui, uj)) /\ InRange(DomRep, K1P(ui, uj)) /\ InRange(DomRep, KdP(ui, uj))
            /\ InRange(DomRep, I1) /\ InRange(DomRep, I2) /\ InRange(DomRep, I1 - I2)
            /\ LET c == CommonType(Promote(DomRep), rn) IN
                 InRange(c, I1 - I2) /\ InRange(Promote(c), (I1 - I2) * CN(ui, uj)) /\ InRange(Promote(c), CN(ui, uj)) /\ InRange(Promote(c), CD(ui, uj))
            /\ ExactInt /\ InRange(rn, Exact)
AffineExact == (pc = "done" /\ InDomain) => (res = Exact /\ ~flag)
\* the displaced value is the exact position difference in the common unit
DisplacedExact == (pc = "displaced" /\ ~flag) => dif.v = I1 - I2
=============================================================================
