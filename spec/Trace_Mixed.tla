---- MODULE Trace_Mixed ----
EXTENDS QuantityBig
Obs == ndJsonDeserialize(IOEnv.TRACE)
V == [k \in 1..Len(Obs) |-> VerdictMixed(Obs[k])]
Bad == {k \in 1..Len(Obs) : ~V[k].ok \/ ~V[k].cmp}
ASSUME PrintT(<<"VALIDATED", ToJson([n |-> Len(Obs)])>>)
ASSUME \A k \in Bad : PrintT(<<"BADREC", ToJson([rec |-> Obs[k], v |-> V[k]])>>)
VARIABLE dummy
Init == dummy = 0
Next == UNCHANGED dummy
====
