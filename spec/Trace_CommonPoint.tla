---- MODULE Trace_CommonPoint ----
(* Layer C of C10: scale and origin of every input and of CommonPointUnitT<...> as read out of the compiled types;   *)
(* the affine map input -> common point unit must be x |-> a*x + b with a a positive integer and b a non-negative     *)
(* integer (exact rationals over BigInt).                                                                             *)
EXTENDS MagBig
Obs == ndJsonDeserialize(IOEnv.TRACE)
Num(m) == Encl(m, 1, 1).nl
Den(m) == Encl(m, 1, 1).dl
\* origin as a rational  on/od
ON(u) == Mul(BI(u.origin.count), Num(u.origin.mag))
OD(u) == Den(u.origin.mag)
Divides(a, b) == DivModT(b, a)[2] = Zero          \* a | b
CoefOK(u, c) ==
  LET an == Mul(Num(u.mag), Den(c.mag))  ad == Mul(Den(u.mag), Num(c.mag))                 \* a = an/ad
      \* b = (o_u - o_c) / s_c = (ON(u)*OD(c) - ON(c)*OD(u)) * Den(c.mag) / (OD(u)*OD(c)*Num(c.mag))
      bn == Mul(Sub(Mul(ON(u), OD(c)), Mul(ON(c), OD(u))), Den(c.mag))
      bd == Mul(Mul(OD(u), OD(c)), Num(c.mag))
  IN /\ Divides(ad, an) /\ Le(ad, an)                    \* a is an integer >= 1
     /\ Divides(bd, bn) /\ bn.s >= 0                     \* b is an integer >= 0
SamePoint(u, c) == Mul(Num(u.mag), Den(c.mag)) = Mul(Den(u.mag), Num(c.mag)) /\ Mul(ON(u), OD(c)) = Mul(ON(c), OD(u))
OkRec(r) == /\ \A i \in 1..Len(r.units) : CoefOK(r.units[i], r.common)
            /\ r.perm_same = 1 /\ r.repeat_same = 1
            /\ (\E i \in 1..Len(r.units) : SamePoint(r.units[i], r.common)) => r.is_input = 1
Bad == {k \in 1..Len(Obs) : ~OkRec(Obs[k])}
ASSUME PrintT(<<"VALIDATED", ToJson([n |-> Len(Obs)])>>)
ASSUME \A k \in Bad : PrintT(<<"BADREC", ToJson([rec |-> Obs[k], coef |-> [i \in 1..Len(Obs[k].units) |-> CoefOK(Obs[k].units[i], Obs[k].common)]])>>)
VARIABLE dummy
Init == dummy = 0
Next == UNCHANGED dummy
====
