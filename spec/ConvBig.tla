------------------------------ MODULE ConvBig ------------------------------
(***************************************************************************)
(* Property-level predicates of C03/C04 (and the integer part of C05/C06)  *)
(* for the REAL machine (LP64: int = 32 bits), over BigInt.                *)
(* Same definitions as ApplyMagnitude.tla's Exact* operators, in the other *)
(* arithmetic.  Nothing here mentions a threshold formula of the library.  *)
(***************************************************************************)
EXTENDS BigInt, Json, IOUtils

IntReps == {"i8","u8","i16","u16","i32","u32","i64","u64"}
BitsOf(r) == CASE r \in {"i8","u8"} -> 8 [] r \in {"i16","u16"} -> 16 [] r \in {"i32","u32","f32"} -> 32
               [] r \in {"i64","u64","f64"} -> 64 [] r = "f80" -> 80
Signed(r) == r \in {"i8","i16","i32","i64"}
MaxOf0(r) == IF Signed(r) THEN Sub(Pow2(BitsOf(r) - 1), FromInt(1)) ELSE Sub(Pow2(BitsOf(r)), FromInt(1))
MinOf0(r) == IF Signed(r) THEN Neg(Pow2(BitsOf(r) - 1)) ELSE Zero
RangeTab == [r \in IntReps |-> [mn |-> MinOf0(r), mx |-> MaxOf0(r)]]     \* evaluated once
MaxOf(r) == RangeTab[r].mx
MinOf(r) == RangeTab[r].mn
Promote(r) == IF BitsOf(r) < 32 THEN "i32" ELSE r
InRange(r, v) == Le(MinOf(r), v) /\ Le(v, MaxOf(r))
One == FromInt(1)

Category(n, d) == IF d = One THEN "intmul" ELSE IF n = One THEN "intdiv" ELSE "rat"
(* planning only: which conversions are expected to compile (get_value static_asserts) *)
PredCompiles(t, n, d) == CASE Category(n, d) = "intmul" -> InRange(t, n)
                           [] Category(n, d) = "intdiv" -> InRange(t, d)
                           [] OTHER -> InRange(Promote(t), n) /\ InRange(Promote(t), d)

ExactOvf(t, x, n, d) ==
  LET p == Mul(x, n) IN
  \/ ~InRange(Promote(t), p)
  \/ Lt(Mul(MaxOf(t), d), p)
  \/ Lt(p, Mul(MinOf(t), d))
ExactTrunc(x, n, d) == DivModT(Mul(x, n), d)[2] # Zero
ExactValue(x, n, d) == DivModT(Mul(x, n), d)[1]

BMin(a,b) == IF Le(a,b) THEN a ELSE b
BMax(a,b) == IF Le(a,b) THEN b ELSE a
FloorDiv(a,b) == DivModF(a,b)[1]
CeilDiv(a,b) == Neg(FloorDiv(Neg(a), b))
(* closed form per instance: the interval of non-overflowing inputs (OvfMonotone lemma of     *)
(* ApplyMagnitude.tla makes an interval a complete description) and the truncation modulus   *)
Contract(t, n, d) ==
  LET p  == Promote(t)
      hi == BMin(MaxOf(t), BMin(FloorDiv(MaxOf(p), n), FloorDiv(Mul(MaxOf(t), d), n)))
      lo == BMax(MinOf(t), BMax(CeilDiv(MinOf(p), n), CeilDiv(Mul(MinOf(t), d), n)))
  IN [k |-> "contract", T |-> t, N |-> ToDec(n), D |-> ToDec(d), cat |-> Category(n, d),
      lo |-> ToDec(lo), hi |-> ToDec(hi), mod |-> ToDec(d), compiles |-> PredCompiles(t, n, d),
      \* unit-only .in(u)/.as(u) is predicted permitted (C06 predicate; planning only)
      implicit |-> (d = One /\ (n = One \/ Le(Mul(FromInt(2147), n), MaxOf(t))))]

(* batch validation of harness records:
   {"T":..,"N":wire,"D":wire,"x":wire,"ovf":0/1,"trunc":0/1,"lossy":0/1,"res":wire,"ub":0/1,"inres":wire|absent} *)
Verdict(r) ==
  LET x == FromWire(r.x) n == FromWire(r.N) d == FromWire(r.D)
      eo == ExactOvf(r.T, x, n, d)
      et == ExactTrunc(x, n, d)
  IN [c04 |-> /\ (r.ovf = 1) = eo
              /\ (r.trunc = 1) = et
              /\ (r.lossy = 1) = (eo \/ et),
      c03 |-> (r.lossy = 0) => /\ FromWire(r.res) = ExactValue(x, n, d)
                                /\ ~et /\ ~eo
                                /\ r.ub = 0
                                /\ FromWire(r.asres) = ExactValue(x, n, d)
                                /\ (r.hasin = 1 => FromWire(r.inres) = ExactValue(x, n, d)),
      cmp |-> (r.covf = 1) = eo /\ (r.ctrunc = 1) = et,      \* the comparator's own expectation
      eo |-> eo, et |-> et]
=============================================================================
