------------------------------- MODULE Wrapper -------------------------------
(* C13 on the real machine: Quantity<U,R> is a transparent wrapper.  The type-state machine's same-unit actions have     *)
(* the result rep and value of the raw C++ operator on R (usual arithmetic conversions with integral promotion).          *)
EXTENDS CastBig
AllReps == IntReps \cup FloatReps
\* result type of a raw binary arithmetic operator on operands of reps a, b
UAC(a, b) == IF IsFloatRep(a) /\ IsFloatRep(b) THEN (IF FRank(a) >= FRank(b) THEN a ELSE b)
             ELSE IF IsFloatRep(a) THEN a ELSE IF IsFloatRep(b) THEN b ELSE UACInt(a, b)
Unary(a) == IF IsFloatRep(a) THEN a ELSE Promote(a)
Ops == {"add", "sub", "mod", "uplus", "uminus", "mul_int", "mul_double", "mul_rep", "div_int", "div_double", "div_rep", "int_mul", "pluseq", "minuseq", "muleq_rep", "diveq_rep"}
Defined(op, r) == (op # "mod") \/ ~IsFloatRep(r)
ResultRep(op, r) == CASE op \in {"add", "sub", "mod"} -> UAC(r, r)
                      [] op \in {"uplus", "uminus"} -> Unary(r)
                      [] op \in {"mul_int", "div_int", "int_mul"} -> UAC(r, "i32")
                      [] op \in {"mul_double", "div_double"} -> UAC(r, "f64")
                      [] op \in {"mul_rep", "div_rep"} -> UAC(r, r)
                      [] op \in {"pluseq", "minuseq", "muleq_rep", "diveq_rep"} -> r
(* value semantics of integer operators: record {op, R, x, y (wire), res (wire), rrep, lt,le,gt,ge,eq,ne} *)
WrapTo(t, v) == LET m == Pow2(BitsOf(t))  w == DivModF(v, m)[2] IN IF Signed(t) /\ Lt(MaxOf(t), w) THEN Sub(w, m) ELSE w
VerdictRaw(r) ==
  LET x == FromWire(r.x)  y == FromWire(r.y)
      rr == ResultRep(r.op, r.R)
      ex == CASE r.op \in {"add", "pluseq"} -> Add(x, y) [] r.op \in {"sub", "minuseq"} -> Sub(x, y) [] r.op = "mod" -> DivModT(x, y)[2]
              [] r.op \in {"mul_rep", "mul_int", "int_mul", "muleq_rep"} -> Mul(x, y) [] r.op \in {"div_rep", "div_int", "diveq_rep"} -> DivModT(x, y)[1]
              [] r.op = "uplus" -> x [] r.op = "uminus" -> Neg(x)
      defined == ~Signed(rr) \/ InRange(rr, ex)           \* signed overflow is UB: nothing is demanded
      expect == IF r.op \in {"pluseq", "minuseq", "muleq_rep", "diveq_rep"} THEN WrapTo(r.R, WrapTo(UAC(r.R, r.R), ex)) ELSE WrapTo(rr, ex)
      ord == Cmp(x, y)
  IN [ok |-> /\ r.rrep = rr
             /\ defined => FromWire(r.res) = expect
             /\ (r.lt = 1) = (ord < 0) /\ (r.le = 1) = (ord <= 0) /\ (r.gt = 1) = (ord > 0) /\ (r.ge = 1) = (ord >= 0)
             /\ (r.eq = 1) = (ord = 0) /\ (r.ne = 1) = (ord # 0),
      rr |-> rr, expect |-> ToDec(expect)]
=============================================================================
