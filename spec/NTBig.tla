-------------------------------- MODULE NTBig --------------------------------
(* C12 on the real 64-bit machine, over BigInt: residues of the modular helpers, primality of witnesses by trial division (below   *)
(* 2^31) or by the deterministic Miller-Rabin test with the first twelve prime bases (valid far beyond 2^64) -- an algorithm      *)
(* independent of the library's Baillie-PSW --, and factorisations given by an independent generator and re-multiplied here.        *)
EXTENDS BigInt, Json, IOUtils
One == FromInt(1)
Two == FromInt(2)
ModB(a, n) == DivModF(a, n)[2]
MulModB(a, b, n) == ModB(Mul(a, b), n)
RECURSIVE PowModR(_,_,_,_)
PowModR(res, base, e, n) == IF e = Zero THEN res
                            ELSE LET qr == DivModT(e, Two) IN
                                 PowModR(IF qr[2] = Zero THEN res ELSE MulModB(res, base, n), MulModB(base, base, n), qr[1], n)
PowModB(a, e, n) == PowModR(ModB(One, n), ModB(a, n), e, n)
RECURSIVE OddSplit(_,_)
OddSplit(d, s) == LET qr == DivModT(d, Two) IN IF qr[2] = Zero THEN OddSplit(qr[1], s + 1) ELSE <<d, s>>
RECURSIVE SqLoop(_,_,_,_)
SqLoop(x, r, s, n) == IF r = s THEN FALSE ELSE IF x = Sub(n, One) THEN TRUE ELSE SqLoop(MulModB(x, x, n), r + 1, s, n)
StrongPRP(n, a) == LET ds == OddSplit(Sub(n, One), 0)  x == PowModB(a, ds[1], n) IN x = One \/ SqLoop(x, 0, ds[2], n)
Bases == <<2, 3, 5, 7, 11, 13, 17, 19, 23, 29, 31, 37>>
SqrtBound(k) == IF k < 4096 THEN 64 ELSE IF k < 65536 THEN 256 ELSE IF k < 1048576 THEN 1024 ELSE IF k < 16777216 THEN 4096
                ELSE IF k < 268435456 THEN 16384 ELSE 46340                         \* 46340^2 < 2^31 <= 46341^2
SmallPrime(k) == k >= 2 /\ \A d \in 2..SqrtBound(k) : (d * d > k) \/ (k % d # 0)
IsPrimeDet(n) == IF Fits31(n) THEN SmallPrime(ToInt(n))
                 ELSE DivModT(n, Two)[2] # Zero /\ \A i \in 1..Len(Bases) : StrongPRP(n, FromInt(Bases[i]))
RECURSIVE Prod(_,_)
Prod(ws, i) == IF i > Len(ws) THEN One ELSE Mul(FromWire(ws[i]), Prod(ws, i + 1))
U64 == Pow2(64)
VerdictNT(r) ==
  CASE r.k = "np" -> LET n == FromWire(r.n) IN
         /\ Prod(r.witness, 1) = n /\ \A i \in 1..Len(r.witness) : IsPrimeDet(FromWire(r.witness[i]))     \* the generator's claim, re-checked
         /\ (r.isp = 1) = (Len(r.witness) = 1)
         /\ \E i \in 1..Len(r.witness) : r.witness[i] = r.factor                                             \* a prime divisor
    [] r.k = "small" -> /\ (r.isp = 1) = SmallPrime(r.n)
                        /\ r.n % r.factor = 0 /\ SmallPrime(r.factor)
    [] r.k = "mul" -> LET a == FromWire(r.a) b == FromWire(r.b) n == FromWire(r.n) res == FromWire(r.r) IN
                      Mul(a, b) = Add(Mul(FromWire(r.q), n), res) /\ Lt(res, n) /\ r.wrap = 0
    [] r.k = "add" -> LET a == FromWire(r.a) b == FromWire(r.b) n == FromWire(r.n) res == FromWire(r.r) IN
                      Lt(res, n) /\ (Add(a, b) = res \/ Add(a, b) = Add(res, n)) /\ r.wrap = 0
    [] r.k = "sub" -> LET a == FromWire(r.a) b == FromWire(r.b) n == FromWire(r.n) res == FromWire(r.r) IN
                      Lt(res, n) /\ (Sub(a, b) = res \/ Add(Sub(a, b), n) = res) /\ r.wrap = 0
    [] r.k = "half" -> LET a == FromWire(r.a) n == FromWire(r.n) res == FromWire(r.r) IN
                       Lt(res, n) /\ (Mul(Two, res) = a \/ Mul(Two, res) = Add(a, n)) /\ r.wrap = 0
    [] r.k = "pow" -> FromWire(r.r) = PowModB(FromWire(r.a), FromWire(r.b), FromWire(r.n)) /\ r.wrap = 0
=============================================================================
