---- MODULE Trace_Conv ----
(* Batch trace validation (DESIGN 5.6) of conversion records logged by harness/conv_sweep.hh *)
EXTENDS ConvBig
Obs == ndJsonDeserialize(IOEnv.TRACE)
V == [k \in 1..Len(Obs) |-> Verdict(Obs[k])]
Bad == {k \in 1..Len(Obs) : ~V[k].c04 \/ ~V[k].c03 \/ ~V[k].cmp}
ASSUME PrintT(<<"VALIDATED", ToJson([n |-> Len(Obs)])>>)
ASSUME \A k \in Bad : PrintT(<<"BADREC", ToJson([rec |-> Obs[k], c04 |-> V[k].c04, c03 |-> V[k].c03, cmp |-> V[k].cmp, eo |-> V[k].eo, et |-> V[k].et])>>)
VARIABLE dummy
Init == dummy = 0
Next == UNCHANGED dummy
====
