---- MODULE Trace_Policy ----
(* values of permitted implicit conversions into integral reps: exactly x * k (C06 consequence) *)
EXTENDS PolicyBig
Obs == ndJsonDeserialize(IOEnv.TRACE)
OkRec(r) == LET x == FromWire(r.x) n == FromWire(r.N) IN
            /\ ImplicitOK(r.R1, r.R2, "rat", n, One)
            /\ InRange(r.R2, Mul(x, n))                        \* cannot overflow below the threshold
            /\ FromWire(r.res) = Mul(x, n) /\ r.ub = 0
            /\ FromWire(r.cexp) = Mul(x, n)
Bad == {k \in 1..Len(Obs) : ~OkRec(Obs[k])}
ASSUME PrintT(<<"VALIDATED", ToJson([n |-> Len(Obs)])>>)
ASSUME \A k \in Bad : PrintT(<<"BADREC", ToJson([rec |-> Obs[k]])>>)
VARIABLE dummy
Init == dummy = 0
Next == UNCHANGED dummy
====
