---- MODULE Gen_Policy ----
EXTENDS PolicyBig
Reps == IF "TIER" \in DOMAIN IOEnv /\ IOEnv.TIER = "thorough" THEN AllReps ELSE AllReps \ {"f80"}
\* the predicate's first conjunct is "the dimensions match": the same questions between units of different dimensions (same magnitudes)
\* must be answered "no" -- for a few representative ratios
KsX == {k \in Ks : k.kind = "rat" /\ k.d = One /\ (k.n = One \/ k.n = FromInt(1000) \/ k.n = FromInt(2))}
VARIABLES r1, r2, k, samedim
Init == r1 \in Reps /\ r2 \in Reps /\ ((k \in Ks /\ samedim = TRUE) \/ (k \in KsX /\ samedim = FALSE))
Next == UNCHANGED <<r1, r2, k, samedim>>
Emit == PrintT(<<"CASE", ToJson([R1 |-> r1, R2 |-> r2, kname |-> KName(k), N |-> ToDec(k.n), D |-> ToDec(k.d), samedim |-> samedim,
                                 ok |-> samedim /\ ImplicitOK(r1, r2, k.kind, k.n, k.d),
                                 mixed |-> samedim /\ MixedOK(r1, r2, k.kind, k.n, k.d)])>>)
====
