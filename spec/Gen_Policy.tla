---- MODULE Gen_Policy ----
EXTENDS PolicyBig
Reps == IF "TIER" \in DOMAIN IOEnv /\ IOEnv.TIER = "thorough" THEN AllReps ELSE AllReps \ {"f80"}
VARIABLES r1, r2, k
Init == r1 \in Reps /\ r2 \in Reps /\ k \in Ks
Next == UNCHANGED <<r1, r2, k>>
Emit == PrintT(<<"CASE", ToJson([R1 |-> r1, R2 |-> r2, kname |-> KName(k), N |-> ToDec(k.n), D |-> ToDec(k.d),
                                 ok |-> ImplicitOK(r1, r2, k.kind, k.n, k.d),
                                 mixed |-> MixedOK(r1, r2, k.kind, k.n, k.d)])>>)
====
