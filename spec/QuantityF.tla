----------------------------- MODULE QuantityF -----------------------------
(* C08, floating clause.  Operands x (unit N1/D1, rep R1) and y (unit N2/D2, rep R2), at least one rep floating, so the common rep c    *)
(* is a floating type with p significand bits.  Exact images in the common unit: e1 = x * k1, e2 = y * k2 (dyadic rationals).         *)
(*   - comparisons equal the exact order whenever the images are separated by more than 2^(3-p) * max(|e1|, |e2|), or when both       *)
(*     products are exactly representable in c (then even equal operands must compare equal);                                          *)
(*   - sum and difference lie within 2^(3-p) * max(|e1|, |e2|) of the exact ones ("a few units in the last place" of the operands),    *)
(*     and are exact when both products and the exact result are representable;                                                        *)
(*   - the six answers are mutually consistent; the result rep is the usual-arithmetic-conversion type.                                *)
EXTENDS QuantityBig
OpMant(rep, v) == IF IsFloatRep(rep) THEN SMant(v) ELSE FromWire(v)
OpExp(rep, v) == IF IsFloatRep(rep) THEN FExp(v) ELSE 0
OpFin(rep, v) == IF IsFloatRep(rep) THEN IsFin(v) ELSE TRUE
\* the odd part of m has at most p bits  <=>  m is a multiple of 2^(BitLen(m) - p)
FitsP(m, p) == m.s = 0 \/ BitLen(m) <= p \/ DivModT(BAbs(m), P2(BitLen(m) - p))[2] = Zero
Comfy(c, m, e) == m.s = 0 \/ (BitLen(m) + e > EMinN(c) + 4 /\ BitLen(m) + e < EMax(c) - 4)
\* | A * 2^ea - B * 2^eb |  <=  M * 2^em * 2^(3-p)
NearF(AA, ea, BB, eb, M, em, p) ==
  LET f == IF ea < eb THEN (IF ea < em THEN ea ELSE em) ELSE (IF eb < em THEN eb ELSE em)
      d == BAbs(Sub(Mul(AA, P2(ea - f)), Mul(BB, P2(eb - f))))
  IN Le(Mul(d, P2(p - 3)), Mul(M, P2(em - f)))
VerdictMixedF(r) ==
  LET n1 == FromWire(r.N1) d1 == FromWire(r.D1) n2 == FromWire(r.N2) d2 == FromWire(r.D2)
      k1 == Cof1(n1, d1, n2, d2)  k2 == Cof2(n1, d1, n2, d2)
      c == CommonType(r.R1, r.R2)
      p == Prec(c)
      xe == OpExp(r.R1, r.x)  ye == OpExp(r.R2, r.y)
      e0 == IF xe < ye THEN xe ELSE ye
      P1 == Mul(OpMant(r.R1, r.x), k1)  P2_ == Mul(OpMant(r.R2, r.y), k2)
      E1 == Mul(P1, P2(xe - e0))  E2 == Mul(P2_, P2(ye - e0))
      M == BMax(BAbs(E1), BAbs(E2))
      fin == OpFin(r.R1, r.x) /\ OpFin(r.R2, r.y)
      comfy == fin /\ Comfy(c, BAbs(E1), e0) /\ Comfy(c, BAbs(E2), e0)
      ord == Cmp(E1, E2)
      sep == Lt(M, Mul(BAbs(Sub(E1, E2)), P2(p - 3)))
      ex == FitsP(P1, p) /\ FitsP(P2_, p)
      decided == sep \/ ex
      sumE == Add(E1, E2)  difE == Sub(E1, E2)
      sfin == r.sum.cls \in {"fin", "zero"} /\ r.dif.cls \in {"fin", "zero"}
  IN [ok |-> /\ r.RC = c
             /\ (comfy /\ decided) => /\ (r.lt = 1) = (ord < 0) /\ (r.le = 1) = (ord <= 0) /\ (r.gt = 1) = (ord > 0)
                                      /\ (r.ge = 1) = (ord >= 0) /\ (r.eq = 1) = (ord = 0) /\ (r.ne = 1) = (ord # 0)
             /\ comfy => /\ sfin
                         /\ NearF(SMant(r.sum), FExp(r.sum), sumE, e0, M, e0, p)
                         /\ NearF(SMant(r.dif), FExp(r.dif), difE, e0, M, e0, p)
             /\ (comfy /\ ex /\ FitsP(sumE, p)) => NearF(SMant(r.sum), FExp(r.sum), sumE, e0, Zero, e0, p)
             /\ (comfy /\ ex /\ FitsP(difE, p)) => NearF(SMant(r.dif), FExp(r.dif), difE, e0, Zero, e0, p)
             /\ fin => /\ (r.le = 1) = (r.lt = 1 \/ r.eq = 1) /\ (r.ge = 1) = (r.gt = 1 \/ r.eq = 1) /\ (r.ne = 1) = (r.eq = 0)
                       /\ ~(r.lt = 1 /\ r.gt = 1),
      comfy |-> comfy, decided |-> decided, exact |-> ex, ord |-> ord]
=============================================================================
