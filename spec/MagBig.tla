------------------------------- MODULE MagBig -------------------------------
(***************************************************************************)
(* C11 / C16: exact evaluation and classification of magnitudes            *)
(*     m = prod_i b_i^(n_i/d_i),  b_i an integer >= 2 or pi,               *)
(* over BigInt, with a rational enclosure of pi (40 digits).               *)
(* A magnitude case is a sequence of factors [b |-> "<decimal>" | "pi",    *)
(* n |-> Int, d |-> Int]; the generator keeps integer bases pairwise       *)
(* coprime and puts fractional exponents on primes only, so that           *)
(* integrality/rationality can be read off the exponents.                  *)
(***************************************************************************)
EXTENDS CastBig

IsPiF(f) == f.b = "pi"
BaseOf(f) == BI(f.b)
PiS  == BI("1000000000000000000000000000000000000000")            \* 10^39
PiLo == BI("3141592653589793238462643383279502884197")             \* floor(pi * 10^39)
PiHi == BI("3141592653589793238462643383279502884198")
RECURSIVE GcdI(_,_)
GcdI(a, b) == IF b = 0 THEN a ELSE GcdI(b, a % b)
RECURSIVE LcmD(_,_)
LcmD(m, i) == IF i > Len(m) THEN 1 ELSE LET r == LcmD(m, i + 1) IN (m[i].d * r) \div GcdI(m[i].d, r)

IsIntM(m) == \A i \in 1..Len(m) : ~IsPiF(m[i]) /\ m[i].d = 1 /\ m[i].n > 0
IsRatM(m) == \A i \in 1..Len(m) : ~IsPiF(m[i]) /\ m[i].d = 1
SelSeq(m, Test(_)) == SelectSeq(m, Test)
NumPartM(m) == SelectSeq(m, LAMBDA f : f.n > 0)
DenPartM(m) == LET neg == SelectSeq(m, LAMBDA f : f.n < 0) IN [i \in 1..Len(neg) |-> [b |-> neg[i].b, n |-> -neg[i].n, d |-> neg[i].d]]
IntPartM(m) == LET ge == SelectSeq(m, LAMBDA f : ~IsPiF(f) /\ f.n >= f.d) IN [i \in 1..Len(ge) |-> [b |-> ge[i].b, n |-> ge[i].n \div ge[i].d, d |-> 1]]

(* enclosure of m^L as NumLo/DenHi <= m^L <= NumHi/DenLo, L = lcm of the exponent denominators *)
RECURSIVE Encl(_,_,_)
Encl(m, i, L) ==
  IF i > Len(m) THEN [nl |-> One, nh |-> One, dl |-> One, dh |-> One]
  ELSE LET r == Encl(m, i + 1, L)
           f == m[i]
           e == (f.n * L) \div f.d
           a == IF e < 0 THEN -e ELSE e
       IN IF IsPiF(f) THEN
               (IF e > 0 THEN [nl |-> Mul(r.nl, Pow(PiLo, a)), nh |-> Mul(r.nh, Pow(PiHi, a)), dl |-> Mul(r.dl, Pow(PiS, a)), dh |-> Mul(r.dh, Pow(PiS, a))]
                ELSE [nl |-> Mul(r.nl, Pow(PiS, a)), nh |-> Mul(r.nh, Pow(PiS, a)), dl |-> Mul(r.dl, Pow(PiLo, a)), dh |-> Mul(r.dh, Pow(PiHi, a))])
          ELSE LET v == Pow(BaseOf(f), a) IN
               (IF e > 0 THEN [nl |-> Mul(r.nl, v), nh |-> Mul(r.nh, v), dl |-> r.dl, dh |-> r.dh]
                ELSE [nl |-> r.nl, nh |-> r.nh, dl |-> Mul(r.dl, v), dh |-> Mul(r.dh, v)])
IntValue(m) == Encl(m, 1, 1).nl            \* for IsIntM(m)

(* ---- integral target ---- *)
\* a lower bound of log2(m) from the factors alone, so that 2^16384 need not be multiplied out to see that no integer type holds it
RECURSIVE Log2Low(_,_)
Log2Low(m, i) == IF i > Len(m) THEN 0 ELSE m[i].n * (BitLen(BaseOf(m[i])) - 1) + Log2Low(m, i + 1)
RepInt(t, m) == IsIntM(m) /\ Log2Low(m, 1) < 70 /\ Le(IntValue(m), MaxOf(t))

(* ---- floating target: compare m^L with (c * 2^ce)^L, c > 0 BigInt ---- *)
\* sign of  num/den - (c*2^ce)^L  where num, den, c > 0
CmpPow(num, den, c, ce, L) == CmpS(num, 0, Mul(den, Pow(c, L)), ce * L)
FMaxMant(r) == Sub(P2(Prec(r)), One)
FMaxExp(r) == EMax(r) - Prec(r) + 1
\* "up" | "in" | "undecided" relative to the largest finite value
AboveMax(r, en, L) == CmpPow(en.nl, en.dh, FMaxMant(r), FMaxExp(r), L) > 0
WithinMax(r, en, L) == CmpPow(en.nh, en.dl, FMaxMant(r), FMaxExp(r), L) <= 0
AtLeastMinNormal(r, en, L) == CmpPow(en.nl, en.dh, One, EMinN(r), L) >= 0
\* band: y*(1 - 2^-k) <= m <= y*(1 + 2^-k), k = p - 5, y = ym * 2^ye
InBandM(r, en, L, ym, ye) ==
  LET k == Prec(r) - 5 IN
  /\ CmpPow(en.nh, en.dl, Mul(ym, Sub(P2(k), One)), ye - k, L) >= 0
  /\ CmpPow(en.nl, en.dh, Mul(ym, Add(P2(k), One)), ye - k, L) <= 0

(* record: {"T":rep, "mag":[factors], "rep":0/1, "ival":wire (integral T), "fval":float (floating T),
            "isint","israt":0/1} *)
VerdictMag(r) ==
  LET m == r.mag  L == LcmD(m, 1)  en == Encl(m, 1, L)  t == r.T IN
  IF ~IsFloatRep(t) THEN
       [ok |-> (r.rep = 1) = RepInt(t, m) /\ (r.rep = 1 => FromWire(r.ival) = IntValue(m)), why |-> "int"]
  ELSE LET above == AboveMax(t, en, L)
           within == WithinMax(t, en, L)
           normal == AtLeastMinNormal(t, en, L)
           pos == r.fval.cls = "fin" /\ r.fval.s = 0
           \* the smallest positive value of T is 2^(EMinN - p + 1): at or above it the magnitude lies within T's range,
           \* below half of it no positive value of T approximates it (it would round to zero)
           denorm == CmpPow(en.nl, en.dh, One, EMinN(t) - Prec(t) + 1, L) >= 0
           vanishing == CmpPow(en.nh, en.dl, One, EMinN(t) - Prec(t), L) < 0
       IN [ok |-> /\ above => r.rep = 0
                  /\ (within /\ normal) => (r.rep = 1 /\ pos /\ InBandM(t, en, L, FromWire(r.fval.m), r.fval.e))
                  /\ (within /\ denorm) => (r.rep = 1 /\ pos)
                  /\ vanishing => r.rep = 0
                  /\ (r.rep = 1) => pos,                      \* strictly positive whenever a value is handed out
           why |-> IF above THEN "above" ELSE IF within /\ normal THEN "normal" ELSE IF within /\ denorm THEN "subnormal" ELSE IF vanishing THEN "vanishing" ELSE "edge"]
(* classification *)
ClassOK(r) == /\ (r.isint = 1) = IsIntM(r.mag)
              /\ (r.israt = 1) = IsRatM(r.mag)
=============================================================================
