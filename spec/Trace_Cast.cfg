INIT Init
NEXT Next
