INIT Init
NEXT Next
