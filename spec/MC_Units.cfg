CONSTANTS Cat <- CatDef Pre <- PrefixDef
          Ids = {"Meters", "Feet", "Seconds", "Hertz", "Kelvins", "Celsius", "Radians", "Degrees"}
SPECIFICATION Spec
INVARIANTS Exact RewriteSound Canonical OrderTotal
