CONSTANTS Cat <- CatDef Pre <- PrefixDef Small0 = FALSE
          Ids = {"Meters", "Feet", "Seconds", "Hertz", "Kelvins", "Celsius", "Radians", "Degrees"}
SPECIFICATION Spec
INVARIANTS Exact RewriteSound Canonical OrderTotal
