---- MODULE Trace_ConvF ----
(* Batch validation of the same-rep floating checker forms (C04 floating clause) *)
EXTENDS CastBig
Obs == ndJsonDeserialize(IOEnv.TRACE)
Bad == {k \in 1..Len(Obs) : ~VerdictSameF(Obs[k]).ok}
ASSUME PrintT(<<"VALIDATED", ToJson([n |-> Len(Obs)])>>)
ASSUME \A k \in Bad : PrintT(<<"BADREC", ToJson([rec |-> Obs[k], v |-> VerdictSameF(Obs[k])])>>)
VARIABLE dummy
Init == dummy = 0
Next == UNCHANGED dummy
====
