INIT Init
NEXT Next
INVARIANT Emit
