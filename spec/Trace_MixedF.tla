---- MODULE Trace_MixedF ----
EXTENDS QuantityF
Obs == ndJsonDeserialize(IOEnv.TRACE)
V == [k \in 1..Len(Obs) |-> VerdictMixedF(Obs[k])]
Bad == {k \in 1..Len(Obs) : ~V[k].ok}
ASSUME PrintT(<<"VALIDATED", ToJson([n |-> Len(Obs), comfy |-> Cardinality({k \in 1..Len(Obs) : V[k].comfy}), decided |-> Cardinality({k \in 1..Len(Obs) : V[k].comfy /\ V[k].decided}),
                                      exact |-> Cardinality({k \in 1..Len(Obs) : V[k].comfy /\ V[k].exact})])>>)
ASSUME \A k \in Bad : PrintT(<<"BADREC", ToJson([rec |-> Obs[k], v |-> V[k]])>>)
VARIABLE dummy
Init == dummy = 0
Next == UNCHANGED dummy
====
