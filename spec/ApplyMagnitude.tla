--------------------------- MODULE ApplyMagnitude ---------------------------
(***************************************************************************)
(* Layer A model of au/code/au/apply_magnitude.hh and                      *)
(* apply_rational_magnitude_to_integral.hh on the scaled machine of CxxInt.*)
(*                                                                         *)
(* State machine: one conversion `q.coerce_in(unit)` of a stored value x   *)
(* of rep T by the rational factor N/D, one action per pipeline stage      *)
(* (categorize | multiply in the promoted type | divide | narrow to T),    *)
(* next to the verdicts of the run-time checkers computed the way the      *)
(* library computes them (threshold formulas).                             *)
(*                                                                         *)
(* Property-level predicates (C03/C04) are in exact arithmetic:            *)
(*   ExactTrunc, ExactOvf, ExactValue.                                      *)
(* Invariants: Impl* = Exact*, and "not lossy => exact, no UB, no wrap".   *)
(***************************************************************************)
EXTENDS CxxInt

CONSTANTS TBits, TSigned, MaxF,  \* the rep under test, and the largest numerator/denominator
          RatTruncInPromoted   \* TRUE: rational would_truncate divides in the promoted type (after fix D2);
                               \* FALSE: in T (the tree as found) -- kept to exhibit D2 at design level

T == Rep(TBits, TSigned)
P == Promote(T)
TMax == MaxOf(T)   TMin == MinOf(T)
PMax == MaxOf(P)   PMin == MinOf(P)

Factors == {f \in (1..MaxF) \X (1..MaxF) : Gcd(f[1], f[2]) = 1}

Category(n, d) == IF d = 1 THEN "intmul" ELSE IF n = 1 THEN "intdiv" ELSE "rat"
(* "the conversion compiles": get_value<T>/<P> static_asserts representability *)
Compiles(n, d) == CASE Category(n, d) = "intmul" -> InRange(T, n)
                    [] Category(n, d) = "intdiv" -> InRange(T, d)
                    [] OTHER -> InRange(P, n) /\ InRange(P, d)

--------------------------------------------------------------------------------
(* property level: exact arithmetic *)
ExactTrunc(x, n, d) == (x * n) % d # 0
ExactOvf(x, n, d) == \/ ~InRange(P, x * n)                      \* product by the numerator, promoted type
                     \/ x * n > TMax * d \/ x * n < TMin * d    \* x*n/d leaves T (as a rational)
ExactValue(x, n, d) == CDiv(x * n, d)

--------------------------------------------------------------------------------
(* implementation shaped: the checkers *)
Clamp(v) == IF v > TMax THEN TMax ELSE IF v < TMin THEN TMin ELSE v

\* OverflowChecker<T, valid>::would_product_overflow (apply_magnitude.hh:46-60)
ProductOvf(x, m) == IF InRange(T, m) THEN x > CDiv(TMax, m) \/ x < CDiv(TMin, m) ELSE x # 0

\* MaxNonOverflowingValue / MinNonOverflowingValue (apply_rational_magnitude_to_integral.hh)
MaxNonOvf(n, d) == IF ~InRange(P, n) THEN 0
                   ELSE IF n < d THEN Clamp(CDiv(PMax, n))
                   ELSE LET lim == IF d > CDiv(PMax, TMax) THEN PMax ELSE TMax * d IN Clamp(CDiv(lim, n))
MinNonOvf(n, d) == IF ~InRange(P, n) THEN 0
                   ELSE IF n < d THEN Clamp(CDiv(PMin, n))
                   ELSE LET lim == IF d > CDiv(PMin, TMin) THEN PMin ELSE TMin * d IN Clamp(CDiv(lim, n))
RationalOvf(x, n, d) == IF TSigned THEN ~(x <= MaxNonOvf(n, d) /\ x >= MinNonOvf(n, d))
                        ELSE ~(x <= MaxNonOvf(n, d))

ImplOvf(x, n, d) == CASE Category(n, d) = "intmul" -> ProductOvf(x, n)
                      [] Category(n, d) = "intdiv" -> FALSE
                      [] OTHER -> RationalOvf(x, n, d)

\* TruncationChecker: the divide category works in T, the rational category in the promoted type
\* (the type the conversion itself divides in).
TruncIn(r, x, d) == IF InRange(r, d) THEN CMod(x, d) # 0 ELSE x # 0
ImplTrunc(x, n, d) == CASE Category(n, d) = "intmul" -> FALSE
                        [] Category(n, d) = "intdiv" -> TruncIn(T, x, d)
                        [] OTHER -> TruncIn(IF RatTruncInPromoted THEN P ELSE T, x, d)

--------------------------------------------------------------------------------
(* the conversion pipeline as a state machine *)
VARIABLES x, n, d, pc, acc, ub, wrapped
vars == <<x, n, d, pc, acc, ub, wrapped>>

Init == /\ x \in ValuesOf(T)
        /\ \E f \in Factors : n = f[1] /\ d = f[2] /\ Compiles(f[1], f[2])
        /\ pc = "start" /\ acc = x /\ ub = FALSE /\ wrapped = FALSE

\* x * get_value<T>(N): both operands have rep T, so the product is formed in Promote(T)
IntMul == /\ pc = "start" /\ Category(n, d) = "intmul"
          /\ LET r == RawBin("*", T, x, T, n) IN
               acc' = r.v /\ ub' = r.ub /\ wrapped' = r.wrapped
          /\ pc' = "narrow" /\ UNCHANGED <<x, n, d>>
IntDiv == /\ pc = "start" /\ Category(n, d) = "intdiv"
          /\ LET r == RawBin("/", T, x, T, d) IN
               acc' = r.v /\ ub' = r.ub /\ wrapped' = r.wrapped
          /\ pc' = "narrow" /\ UNCHANGED <<x, n, d>>
\* x * get_value<P>(num): x promoted to P
RatMul == /\ pc = "start" /\ Category(n, d) = "rat"
          /\ LET r == RawBin("*", T, x, P, n) IN
               acc' = r.v /\ ub' = r.ub /\ wrapped' = r.wrapped
          /\ pc' = "ratdiv" /\ UNCHANGED <<x, n, d>>
RatDiv == /\ pc = "ratdiv"
          /\ LET r == RawBin("/", P, acc, P, d) IN
               acc' = r.v /\ ub' = (ub \/ r.ub) /\ wrapped' = (wrapped \/ r.wrapped)
          /\ pc' = "narrow" /\ UNCHANGED <<x, n, d>>
\* return / static_cast<T>: value-changing when out of range (modular; flagged as wrapped)
Narrow == /\ pc = "narrow"
          /\ acc' = Wrap(T, acc) /\ wrapped' = (wrapped \/ ~InRange(T, acc))
          /\ pc' = "done" /\ UNCHANGED <<x, n, d, ub>>
Next == IntMul \/ IntDiv \/ RatMul \/ RatDiv \/ Narrow \/ (pc = "done" /\ UNCHANGED vars)
Spec == Init /\ [][Next]_vars

--------------------------------------------------------------------------------
(* invariants *)
Lossy == ImplOvf(x, n, d) \/ ImplTrunc(x, n, d)
OvfExact   == ImplOvf(x, n, d) = ExactOvf(x, n, d)                      \* C04
TruncExact == ImplTrunc(x, n, d) = ExactTrunc(x, n, d)                  \* C04
ClearedIsExact == (pc = "done" /\ ~Lossy) => (acc = ExactValue(x, n, d) /\ (x * n) % d = 0)   \* C03
ClearedNoUB    == ~Lossy => (~ub /\ ~wrapped)                            \* C03, every stage
\* contract lemma: the exact overflow predicate is monotone away from zero, so the set of
\* non-overflowing inputs is an interval containing 0 (what the contract sweep relies on)
OvfMonotone == /\ (x >= 0 /\ x < TMax /\ ExactOvf(x, n, d)) => ExactOvf(x + 1, n, d)
               /\ (x <= 0 /\ x > TMin /\ ExactOvf(x, n, d)) => ExactOvf(x - 1, n, d)
               /\ ~ExactOvf(0, n, d)
\* the value is never reported as representable while it is not (redundant with the above,
\* stated the way C04 states it)
NoFalseLossy == (InRange(T, ExactValue(x, n, d)) /\ (x * n) % d = 0 /\ InRange(P, x * n)) => ~Lossy
=============================================================================
