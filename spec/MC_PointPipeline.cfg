CONSTANTS IntBits = 6 RepsP <- MCRepsP PUnitsA <- MCPUnits
SPECIFICATION Spec
INVARIANTS AffineExact DisplacedExact
CHECK_DEADLOCK FALSE
