INIT Init
NEXT Next
