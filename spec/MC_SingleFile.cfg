CONSTANT N = 4
INIT Init
NEXT Next
INVARIANT Correct
INVARIANT NoStall
CHECK_DEADLOCK FALSE
