------------------------------ MODULE Trace_Walk ------------------------------
(* Behaviour-mode trace validation of recorded walks: every line is one executed step of a generated straight-line program, *)
(* with the static type (rep, unit magnitude read out of the compiled type) and the stored value observed after it.         *)
(* TraceNext consumes one line: the step must be enabled in the specification and lead to exactly the observed state.       *)
(* After a mismatch the specification state is re-synchronised with the observation so that the rest of the trace is still  *)
(* checked.  One line {"a":"Make",...} starts a new walk.                                                                   *)
EXTENDS WalkOps, MagBig
Tr == ndJsonDeserialize(IOEnv.TRACE)
VARIABLES st, l
UnitIdx(name) == CHOOSE i \in 1..Len(UnitsW) : UnitsW[i][1] = name
Expected(e, s) ==
  CASE e.a = "Make" -> [ok |-> InRange(e.args.rep, BI(e.args.v)), st |-> DoMake(e.args.rep, UnitIdx(e.args.unit), BI(e.args.v))]
    [] e.a = "As" -> [ok |-> AsOK(s, UnitIdx(e.args.unit)), st |-> DoAs(s, UnitIdx(e.args.unit))]
    [] e.a = "CoerceAs" -> [ok |-> CoerceOK(s, UnitIdx(e.args.unit)), st |-> DoAs(s, UnitIdx(e.args.unit))]
    [] e.a = "RepCast" -> [ok |-> InRange(e.args.rep, s.v), st |-> DoCast(s, e.args.rep)]
    [] e.a = "AddLit" -> DoAdd(s, e.args.rep, UnitIdx(e.args.unit), BI(e.args.v), 1)
    [] e.a = "SubLit" -> DoAdd(s, e.args.rep, UnitIdx(e.args.unit), BI(e.args.v), -1)
    [] e.a = "CmpLit" -> [ok |-> LET x == DoCmp(s, e.args.rep, UnitIdx(e.args.unit), BI(e.args.v)) IN
                                   x.ok /\ (e.obs.lt = 1) = (x.ord < 0) /\ (e.obs.eq = 1) = (x.ord = 0) /\ (e.obs.gt = 1) = (x.ord > 0), st |-> s]
    [] e.a = "MulInt" -> DoMul(s, e.args.k)
    [] e.a = "DivInt" -> DoDivInt(s, e.args.k)
    [] e.a = "ModLit" -> DoMod(s, e.args.rep, UnitIdx(e.args.unit), BI(e.args.v))
    [] e.a = "Neg" -> DoNeg(s)
ObsSt(e) == LET en == Encl(e.obs.mag, 1, 1) IN St(e.obs.rep, en.nl, en.dl, FromWire(e.obs.v))
Same(a, b) == a.rep = b.rep /\ Cmp(a.n, b.n) = 0 /\ Cmp(a.d, b.d) = 0 /\ Cmp(a.v, b.v) = 0
Show(s) == [rep |-> s.rep, n |-> ToDec(s.n), d |-> ToDec(s.d), v |-> ToDec(s.v)]
Init == st = NoneSt /\ l = 1
TraceNext == /\ l <= Len(Tr)
             /\ LET e == Tr[l]
                    x == Expected(e, st)
                    o == ObsSt(e) IN
                  /\ IF x.ok /\ Same(x.st, o) THEN TRUE ELSE PrintT(<<"BADREC", ToJson([l |-> l, w |-> e.w, i |-> e.i, a |-> e.a, enabled |-> x.ok, expected |-> Show(x.st), observed |-> Show(o)])>>)
                  /\ st' = o
             /\ l' = l + 1
Spec == Init /\ [][TraceNext]_<<st, l>>
Consumed == PrintT(<<"VALIDATED", ToJson([n |-> TLCGet("stats").diameter - 1])>>)
=============================================================================
