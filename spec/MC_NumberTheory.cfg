CONSTANT W = 6
INIT Init
NEXT Next
INVARIANTS MulModExact AddSubExact HalfExact PowExact
