------------------------------ MODULE Gen_Units ------------------------------
(* Case emission for C02 (also reused by C18): expressions with the denotation the specification assigns. *)
(* Universe: every catalogue unit at depth 1 (powers, scalings, all prefixes) and all depth-2 products and  *)
(* quotients over a small universe; a seeded sample of depth 3 is produced by simulation from Deep.          *)
EXTENDS Units, Catalogue, Json, IOUtils
CONSTANTS Ids2            \* universe of the depth-2 enumeration
AllIds == CatIds
Leaf(S) == {[op |-> "unit", id |-> i] : i \in S}
Exps == {<<-1, 1>>, <<2, 1>>, <<1, 2>>, <<-2, 1>>, <<3, 1>>, <<1, 3>>, <<-3, 2>>}
Exps2 == {<<-1, 1>>, <<2, 1>>, <<1, 2>>}
Mags == {<<BP(4, 1, 1)>>, <<BP(6, -1, 1)>>, <<BP(7, 1, 1)>>, <<BP(4, 1, 2)>>, <<BP(4, 3, 1), BP(10, -2, 1)>>, <<BP(7, -1, 1), BP(6, 2, 1)>>}
Mags2 == {<<BP(4, 1, 1)>>, <<BP(6, -1, 1)>>, <<BP(7, 1, 1)>>}
AllPrefs == DOMAIN PrefixDef
Prefs2 == {"kilo", "milli", "kibi"}
W(S, X, M, Q) == Leaf(S) \cup {[op |-> "pow", x |-> a, r |-> r] : a \in Leaf(S), r \in X}
                     \cup {[op |-> "scale", x |-> a, m |-> m] : a \in Leaf(S), m \in M}
                     \cup {[op |-> "prefix", x |-> a, p |-> p] : a \in Leaf(S), p \in Q}
D1All == W(AllIds, Exps, Mags, AllPrefs)
D1s == W(Ids2, Exps2, Mags2, Prefs2)
D2 == {[op |-> o, l |-> a, r |-> b] : o \in {"mul", "div"}, a \in D1s, b \in D1s}
(* scaling an already scaled unit: by ONE, by the inverse factor (folds back to the unscaled unit), by another factor *)
InvM(m) == [i \in 1..Len(m) |-> [b |-> m[i].b, e |-> <<-m[i].e[1], m[i].e[2]>>]]
ScaleTwice == {[op |-> "scale", x |-> [op |-> "scale", x |-> a, m |-> m], m |-> m2] : a \in Leaf(Ids2), m \in Mags2, m2 \in Mags2 \cup {<<>>}}
              \cup {[op |-> "scale", x |-> [op |-> "scale", x |-> a, m |-> m], m |-> InvM(m)] : a \in Leaf(Ids2), m \in Mags2}
              \cup {[op |-> "scale", x |-> a, m |-> <<>>] : a \in Leaf(AllIds)}
              \cup {[op |-> "scale", x |-> [op |-> "prefix", x |-> a, p |-> p], m |-> m2] : a \in Leaf(Ids2), p \in Prefs2, m2 \in {<<>>, <<BP(6, -1, 1)>>}}

(* a power of a power: exponents must be multiplied and reduced to lowest terms (x^(1/4))^2 = x^(1/2), also through a scale factor *)
PP == { <<<<1, 4>>, <<2, 1>>>>, <<<<1, 6>>, <<3, 1>>>>, <<<<3, 4>>, <<2, 1>>>>, <<<<1, 2>>, <<2, 1>>>>, <<<<2, 1>>, <<1, 2>>>>, <<<<2, 3>>, <<3, 2>>>>,
        <<<<1, 6>>, <<2, 1>>>>, <<<<3, 2>>, <<2, 3>>>>, <<<<-1, 4>>, <<2, 1>>>>, <<<<1, 4>>, <<-2, 1>>>>, <<<<1, 4>>, <<6, 1>>>>,
        \* integer powers of integer powers (also spelled with singular names: squared(squared(second))), the identity power, the inverse twice
        <<<<2, 1>>, <<2, 1>>>>, <<<<2, 1>>, <<-1, 1>>>>, <<<<3, 1>>, <<2, 1>>>>, <<<<1, 1>>, <<2, 1>>>>, <<<<2, 1>>, <<1, 1>>>>, <<<<-1, 1>>, <<-1, 1>>>>, <<<<-2, 1>>, <<-2, 1>>>> }
\* a power of a product and of a quotient (squared(newton * meter))
PowProd == {[op |-> "pow", x |-> [op |-> o, l |-> a, r |-> b], r |-> r] : o \in {"mul", "div"}, a \in Leaf(Ids2), b \in Leaf(Ids2), r \in {<<2, 1>>, <<-1, 1>>, <<1, 2>>, <<3, 1>>}}
PowPow == {[op |-> "pow", x |-> [op |-> "pow", x |-> a, r |-> r[1]], r |-> r[2]] :
              a \in Leaf(Ids2) \cup {[op |-> "scale", x |-> b, m |-> m] : b \in Leaf(Ids2), m \in Mags2}, r \in PP}

(* leaf keys and the exponent map over named units (property level: AC-equality of pure expressions) *)
LeafKey(e) == IF e.op = "unit" THEN e.id ELSE e.p \o ":" \o e.x.id
IsLeafLike(e) == e.op = "unit" \/ (e.op = "prefix" /\ e.x.op = "unit")
RECURSIVE NamedExp(_)
NamedExp(e) == IF IsLeafLike(e) THEN [k \in {LeafKey(e)} |-> <<1, 1>>]
            ELSE CASE e.op = "mul" -> MapMul(NamedExp(e.l), NamedExp(e.r))
                   [] e.op = "div" -> MapMul(NamedExp(e.l), MapPow(NamedExp(e.r), <<-1, 1>>))
                   [] e.op = "pow" -> MapPow(NamedExp(e.x), e.r)
RECURSIVE PureNamed(_)
PureNamed(e) == IsLeafLike(e) \/ (e.op \in {"mul", "div"} /\ PureNamed(e.l) /\ PureNamed(e.r)) \/ (e.op = "pow" /\ PureNamed(e.x))
AsSet(f) == {[b |-> k, n |-> f[k][1], d |-> f[k][2]] : k \in DOMAIN f}

VARIABLES e
Init == e \in D1All \cup D2 \cup ScaleTwice \cup PowPow \cup PowProd
Next == UNCHANGED e
Emit == PrintT(<<"CASE", ToJson([e |-> e, dim |-> AsSet(DenDim(e)), mag |-> AsSet(DenMag(e)),
                                 pure |-> PureNamed(e), named |-> IF PureNamed(e) THEN AsSet(NamedExp(e)) ELSE {},
                                 excluded |-> Broken(e)])>>)
=============================================================================
