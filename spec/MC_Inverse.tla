----------------------------- MODULE MC_Inverse -----------------------------
(* Layer A lemma of C15: with the conversion constant K >= 10^6 (the library's compile-time threshold for integral      *)
(* inversions), truncating inversion round-trips every 1 <= n <= 1000:  trunc(K / trunc(K / n)) = n.  Below the threshold   *)
(* the lemma fails (which is why the threshold exists); ThresholdIsNeeded exhibits that.                                  *)
EXTENDS Integers
CONSTANTS KMax
Ks == (1000000..KMax) \cup {k * 1000000 : k \in 1..2000} \cup {1000000007, 2000000000, 1048576, 16777216}
VARIABLES K, n
Init == K \in Ks /\ n \in 1..1000
Next == UNCHANGED <<K, n>>
Inv(k, x) == k \div x
RoundTrip == Inv(K, Inv(K, n)) = n
=============================================================================
