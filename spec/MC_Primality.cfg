CONSTANT W = 11
INIT InitP
NEXT Next
INVARIANT PrimalityExact
