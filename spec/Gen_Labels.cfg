CONSTANTS Cat <- CatDef Pre <- PrefixDef
          Ids2 = {"Meters", "Feet", "Seconds", "Celsius", "Trinches", "Smoots"}
INIT Init
NEXT Next
INVARIANT Emit
