INIT Init
NEXT Next
