---- MODULE Gen_SingleFile ----
(* emits every acyclic include graph on N files x selection together with the model's prediction of the tool's run *)
(* (order of discovery = dict order of `files`, and the `ready` order produced by the sorting passes)                  *)
EXTENDS SingleFile, Json
RECURSIVE RunParse(_,_,_,_)
RunParse(gr, td, fl, dp) ==
  IF td = <<>> THEN <<fl, dp>>
  ELSE LET nf == td[Len(td)]  rest == SubSeq(td, 1, Len(td) - 1)
           fl2 == IF InSeq(nf, fl) THEN fl ELSE Append(fl, nf)
           incs == SeqOfSet(gr[nf])
       IN RunParse(gr, PushMissing(rest, incs, fl2), fl2, [f \in DOMAIN dp \cup {nf} |-> IF f = nf THEN incs ELSE dp[f]])
RECURSIVE RunSort(_,_,_,_)
RunSort(fl, dp, rd, fuel) ==
  LET unv == SelectSeq(fl, LAMBDA f : ~InSeq(f, rd)) IN
  IF unv = <<>> \/ fuel = 0 THEN rd
  ELSE LET r == Pass(unv, 1, dp, <<>>) IN RunSort(fl, r[1], rd \o r[2], fuel - 1)
Predict(gr, s) == LET p == RunParse(gr, s, <<>>, [f \in {} |-> <<>>]) IN [files |-> p[1], ready |-> RunSort(p[1], p[2], <<>>, N + 1)]
Edges(gr) == {<<f, h>> : f \in Files, h \in Files} \cap {<<f, h>> \in Files \X Files : h \in gr[f]}
EmitG == phase # "parse" \/ todo # sel \/ files # <<>> \/
         PrintT(<<"CASE", ToJson([n |-> N, edges |-> {[f |-> e[1], h |-> e[2]] : e \in Edges(g)}, sel |-> sel, predicted |-> Predict(g, sel)])>>)
====
