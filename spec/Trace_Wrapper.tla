---- MODULE Trace_Wrapper ----
EXTENDS Wrapper
Obs == ndJsonDeserialize(IOEnv.TRACE)
V == [k \in 1..Len(Obs) |-> VerdictRaw(Obs[k])]
Bad == {k \in 1..Len(Obs) : ~V[k].ok}
ASSUME PrintT(<<"VALIDATED", ToJson([n |-> Len(Obs)])>>)
ASSUME \A k \in Bad : PrintT(<<"BADREC", ToJson([rec |-> Obs[k], v |-> V[k]])>>)
VARIABLE dummy
Init == dummy = 0
Next == UNCHANGED dummy
====
