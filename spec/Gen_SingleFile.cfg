CONSTANT N = 4
INIT Init
NEXT Next
INVARIANT EmitG
CHECK_DEADLOCK FALSE
