---------------------------- MODULE CastCheckers ----------------------------
(***************************************************************************)
(* Layer A model of au/code/au/static_cast_checkers.hh and of the three-   *)
(* stage <T> checkers of quantity.hh (factor 1), on a scaled machine:      *)
(*   integer reps of CxxInt (IntBits = 6: i4 u4 | i6 u6 | i8 u8)           *)
(*   two minifloat formats  F1 = <p=3, emin=-2, emax=8>,                    *)
(*                          F2 = <p=5, emin=-4, emax=9>                     *)
(* A finite floating value is stored as an integer multiple of 2^-8 (the   *)
(* smallest F2 subnormal), so all arithmetic stays in native integers.     *)
(* The minifloats are chosen like the real ones: F1 has fewer significand  *)
(* bits than the widest integer (rounding of integer limits matters), and  *)
(* both exceed every integer range.                                        *)
(***************************************************************************)
EXTENDS CxxInt, FiniteSetsExt

U == 256      \* scale: stored v means v / U

IntRepsA == {Rep(4, TRUE), Rep(4, FALSE), Rep(6, TRUE), Rep(6, FALSE), Rep(8, TRUE), Rep(8, FALSE)}
F1 == [f |-> 1, p |-> 3, emin |-> -2, emax |-> 8]
F2 == [f |-> 2, p |-> 5, emin |-> -4, emax |-> 9]
FloatRepsA == {F1, F2}
IsF(r) == "f" \in DOMAIN r
Pow2S(k) == IF k >= 0 THEN U * 2^k ELSE U \div 2^(-k)        \* 2^k scaled; k >= -8
(* finite non-negative values of a format, scaled *)
FinPos0(r) == { m * Pow2S(e - r.p + 1) : m \in 0..(2^r.p - 1), e \in r.emin..r.emax }
FinPos1 == FinPos0(F1)    FinPos2 == FinPos0(F2)      \* constant-level: evaluated once by TLC
FinPos(r) == IF r.f = 1 THEN FinPos1 ELSE FinPos2
FMaxS(r) == (2^r.p - 1) * Pow2S(r.emax - r.p + 1)
Fin(v) == [c |-> "fin", v |-> v]
PInf == [c |-> "inf", v |-> 1]   NInf == [c |-> "inf", v |-> -1]   NaN == [c |-> "nan", v |-> 0]
FValues(r) == { Fin(v) : v \in FinPos(r) } \cup { Fin(-v) : v \in FinPos(r) } \cup {PInf, NInf, NaN}

(* round a scaled rational value w (exact integer multiple of 1/U) to format r, RNE; beyond max -> inf *)
RoundF(r, w) ==
  LET a == Abs(w)
      cands == FinPos(r)
      lower == Max({x \in cands : x <= a})
      ups == {x \in cands : x >= a}
  IN IF ups = {} THEN
          (LET ulp == Pow2S(r.emax - r.p + 1) IN
             IF 2 * (a - FMaxS(r)) < ulp THEN Fin(Sgn(w) * FMaxS(r)) ELSE (IF w > 0 THEN PInf ELSE NInf))
     ELSE LET upper == Min(ups)
              dl == a - lower  du == upper - a
              \* tie: even significand = the candidate that is a multiple of twice the local ulp
              pick == IF lower = upper THEN lower ELSE IF dl < du THEN lower ELSE IF du < dl THEN upper
                      ELSE IF (lower \div (upper - lower)) % 2 = 0 THEN lower ELSE upper
          IN Fin(Sgn(w) * pick)

(* ---------------- C++ conversions (property level: definedness and value) ---------------- *)
(* a value is an integer (int reps) or a float record (float reps) *)
ValuesOfR(r) == IF IsF(r) THEN FValues(r) ELSE ValuesOf(r)
TruncS(v) == CDiv(v, U)                         \* float (scaled) -> integer part
CastDefined(t, s, x) ==                        \* is static_cast<t>(x) well-defined & value-range-preserving
  IF ~IsF(s) /\ ~IsF(t) THEN InRange(t, x)            \* out of range is modular, i.e. value changing
  ELSE IF ~IsF(s) /\ IsF(t) THEN TRUE
  ELSE IF IsF(s) /\ ~IsF(t) THEN x.c = "fin" /\ InRange(t, TruncS(x.v))      \* [conv.fpint]
  ELSE x.c # "fin" \/ Abs(x.v) <= FMaxS(t)                                     \* float -> float
CastValue(t, s, x) ==
  IF ~IsF(s) /\ ~IsF(t) THEN Wrap(t, x)
  ELSE IF ~IsF(s) /\ IsF(t) THEN RoundF(t, x * U)
  ELSE IF IsF(s) /\ ~IsF(t) THEN TruncS(x.v)
  ELSE IF x.c = "fin" THEN RoundF(t, x.v) ELSE x
IsIntegralValue(s, x) == IF IsF(s) THEN (x.c = "fin" /\ x.v % U = 0) ELSE TRUE

(* usual arithmetic conversions with floats *)
CommonTypeA(a, b) == IF a = b THEN a
                     ELSE IF IsF(a) /\ IsF(b) THEN (IF a.f >= b.f THEN a ELSE b)
                     ELSE IF IsF(a) THEN a ELSE IF IsF(b) THEN b ELSE CommonType(a, b)

(* ---------------- implementation shaped: static_cast_checkers.hh ---------------- *)
FLess(x, y) == \* IEEE < on float records (NaN compares false)
  IF x.c = "nan" \/ y.c = "nan" THEN FALSE
  ELSE LET k(z) == IF z.c = "inf" THEN z.v * 10000000 ELSE z.v IN k(x) < k(y)
CONSTANT FixedUpperBound      \* TRUE: float->integer additionally tests  x >= 2^digits  (after fix D3)
                              \* FALSE: only x > (Source)max(Dest), which rounds up when Source has fewer bits
SizeOf(r) == IF IsF(r) THEN r.f ELSE r.b
ImplCastOvf(t, s, x) ==
  IF ~IsF(s) /\ ~IsF(t) THEN
       IF s.s = t.s /\ s.b <= t.b THEN FALSE
       ELSE IF ~s.s THEN x > Wrap(s, MaxOf(t))          \* UNSIGNED_TO_INTEGRAL: static_cast<Source>(max(Dest))
       ELSE IF ~t.s THEN x < 0 \/ Wrap(Rep(s.b, FALSE), x) > Wrap(Rep(s.b, FALSE), MaxOf(t))
       ELSE x < Wrap(s, MinOf(t)) \/ x > Wrap(s, MaxOf(t))
  ELSE IF ~IsF(s) /\ IsF(t) THEN FALSE                   \* float bounds contain every integer range
  ELSE IF IsF(s) /\ ~IsF(t) THEN
       \/ FLess(x, RoundF(s, MinOf(t) * U))
       \/ FLess(RoundF(s, MaxOf(t) * U), x)
       \/ (FixedUpperBound /\ x.c # "nan" /\ ~FLess(x, RoundF(s, (MaxOf(t) + 1) * U)))
  ELSE IF s.f <= t.f THEN FALSE
  ELSE FLess(x, Fin(-FMaxS(t))) \/ FLess(Fin(FMaxS(t)), x)
ImplCastTrunc(t, s, x) ==
  IF s = t \/ IsF(t) \/ ~IsF(s) THEN FALSE
  ELSE ~(x.c = "fin" /\ x.v % U = 0)                     \* std::trunc(x) != x  (true for NaN; false for inf)

(* the three-stage <T> checkers for a conversion factor of exactly 1 (quantity.hh:638-692), as a     *)
(* state machine: CastToCommon, ScaleInCommon (identity for factor 1), CastToTarget                 *)
VARIABLES s, t, x, pc, y, ovf, trunc, def, res
vars == <<s, t, x, pc, y, ovf, trunc, def, res>>
Init == /\ \E a \in IntRepsA \cup FloatRepsA, b \in IntRepsA \cup FloatRepsA :
             s = a /\ t = b /\ x \in ValuesOfR(a)
        /\ pc = "start" /\ y = x /\ ovf = FALSE /\ trunc = FALSE /\ def = TRUE /\ res = x
C == CommonTypeA(s, t)
CastToCommon == /\ pc = "start"
                /\ ovf' = ImplCastOvf(C, s, x) /\ trunc' = ImplCastTrunc(C, s, x)
                /\ def' = CastDefined(C, s, x) /\ y' = CastValue(C, s, x)
                /\ pc' = "common" /\ UNCHANGED <<s, t, x, res>>
ScaleInCommon == /\ pc = "common" /\ pc' = "scaled"          \* factor 1: apply_magnitude is the identity
                 /\ UNCHANGED <<s, t, x, y, ovf, trunc, def, res>>
CastToTarget == /\ pc = "scaled"
                /\ ovf' = (ovf \/ ImplCastOvf(t, C, y)) /\ trunc' = (trunc \/ ImplCastTrunc(t, C, y))
                /\ def' = (def /\ CastDefined(t, C, y)) /\ res' = CastValue(t, C, y)
                /\ pc' = "done" /\ UNCHANGED <<s, t, x, y>>
Next == CastToCommon \/ ScaleInCommon \/ CastToTarget \/ (pc = "done" /\ UNCHANGED vars)
Spec == Init /\ [][Next]_vars

Done == pc = "done"
Lossy == ovf \/ trunc
(* C05: not lossy => every cast defined and in range; integral path exact; float->int result is the exact cast *)
ClearedDefined == (Done /\ ~Lossy) => def
ClearedExact == (Done /\ ~Lossy /\ ~IsF(s) /\ ~IsF(t)) => res = x
ClearedFloatToInt == (Done /\ ~Lossy /\ IsF(s) /\ ~IsF(t)) => (x.c = "fin" /\ x.v = res * U)
(* C05: values that cannot be cast to an integral target are always reported lossy *)
UncastableIsLossy == (Done /\ ~IsF(t) /\ ~def) => Lossy
(* C05: integral source: overflow reported only if some stage's exact value leaves that stage's range *)
IntOvfOnlyIfReal == (Done /\ ~IsF(s) /\ ovf) => ~def
=============================================================================
