---- MODULE MC_PointPipeline ----
EXTENDS PointPipeline
MCRepsP == {Rep(4, TRUE), Rep(6, TRUE), Rep(8, TRUE), Rep(4, FALSE), Rep(6, FALSE), Rep(8, FALSE)}
\* <<sn, sd, on, od>>: base, "celsius-like" (same scale, origin 3), half unit, 2/3 unit with origin 5/2, kilo-like (x4), origin written in a finer unit (7/4)
MCPUnits == {<<1, 1, 0, 1>>, <<1, 1, 3, 1>>, <<1, 2, 0, 1>>, <<2, 3, 5, 2>>, <<4, 1, 0, 1>>, <<1, 1, 7, 4>>, <<1, 4, 3, 1>>}
====
