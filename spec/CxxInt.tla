------------------------------- MODULE CxxInt -------------------------------
(***************************************************************************)
(* C++ integer arithmetic on a *scaled* machine (native TLC integers).     *)
(* A rep is a record [b |-> bits, s |-> signed?].  IntBits is the width of *)
(* `int` on the scaled machine: reps narrower than IntBits promote to the  *)
(* signed IntBits-bit type, exactly like sub-int types do in C++ (LP64).   *)
(* Layer A instantiates IntBits at 6..12 so that TLC can visit every value *)
(* of every rep; the real machine (IntBits = 32) is handled by the BigInt  *)
(* instantiation of the property-level modules.                            *)
(***************************************************************************)
EXTENDS Integers, Sequences, FiniteSets, TLC

CONSTANT IntBits

Abs(v) == IF v < 0 THEN -v ELSE v
Sgn(v) == IF v < 0 THEN -1 ELSE IF v > 0 THEN 1 ELSE 0
(* C++ truncating division and remainder (sign of dividend) *)
CDiv(a, b) == IF (a < 0) = (b < 0) THEN Abs(a) \div Abs(b) ELSE -(Abs(a) \div Abs(b))
CMod(a, b) == a - b * CDiv(a, b)
RECURSIVE Gcd(_,_)
Gcd(a, b) == IF b = 0 THEN Abs(a) ELSE Gcd(b, a % b)

Rep(b, s) == [b |-> b, s |-> s]
IntRep == Rep(IntBits, TRUE)
UIntRep == Rep(IntBits, FALSE)
MaxOf(r) == IF r.s THEN 2^(r.b - 1) - 1 ELSE 2^r.b - 1
MinOf(r) == IF r.s THEN -(2^(r.b - 1)) ELSE 0
ValuesOf(r) == MinOf(r)..MaxOf(r)
InRange(r, v) == MinOf(r) <= v /\ v <= MaxOf(r)

(* integral promotion: every rep narrower than int (signed or not) becomes int *)
Promote(r) == IF r.b < IntBits THEN IntRep ELSE r

(* usual arithmetic conversions on two *promoted* operands *)
UAC(r1, r2) ==
  LET p == Promote(r1)  q == Promote(r2) IN
  IF p = q THEN p
  ELSE IF p.s = q.s THEN (IF p.b >= q.b THEN p ELSE q)
  ELSE LET u == IF p.s THEN q ELSE p      \* the unsigned one
           g == IF p.s THEN p ELSE q      \* the signed one
       IN IF u.b >= g.b THEN u ELSE g     \* signed can represent all unsigned values iff wider
(* std::common_type<R1,R2>: decay of (b ? r1 : r2): identical types stay, otherwise UAC *)
CommonType(r1, r2) == IF r1 = r2 THEN r1 ELSE UAC(r1, r2)

(* value-changing conversion to an integer rep: modular (defined in C++20, impl-defined before) *)
Wrap(r, v) == LET m == 2^r.b  w == v % m IN IF r.s /\ w > MaxOf(r) THEN w - m ELSE w

(* a raw binary operation in C++: operands converted to UAC type, computed there.              *)
(* result record: v = value (wrapped if unsigned), ub = signed overflow or division by zero,     *)
(* wrapped = unsigned wrap-around happened                                                       *)
RawBin(op, r1, v1, r2, v2) ==
  LET c == UAC(r1, r2)
      a == Wrap(c, v1)  b == Wrap(c, v2)
      divz == op \in {"/", "%"} /\ b = 0
      ex == CASE op = "+" -> a + b [] op = "-" -> a - b [] op = "*" -> a * b
              [] op = "/" -> IF divz THEN 0 ELSE CDiv(a, b)
              [] op = "%" -> IF divz THEN 0 ELSE CMod(a, b)
      out == ~InRange(c, ex)
  IN [rep |-> c, v |-> IF out THEN Wrap(c, ex) ELSE ex,
      ub |-> divz \/ (out /\ c.s), wrapped |-> out /\ ~c.s, exact |-> ex]
=============================================================================
