------------------------------ MODULE Gen_Conv ------------------------------
(***************************************************************************)
(* Case emission for C03/C04 (DESIGN 5.2): the factor grid per rep and the *)
(* closed-form contract of every (T, N, D) instance, computed with BigInt. *)
(* Grid = library-like ratios, powers of 2 and 10, factors on the limits   *)
(* of T and of the promoted type P, the branch boundaries of the           *)
(* implementation-shaped model (D = floor(Pmax/Tmax) and neighbours, N = D *)
(* +- 1, N = Pmax, D = 2^(bits-1)), 64-bit primes, and seeded random       *)
(* coprime pairs supplied by the engine (inputs only, file in IOEnv.EXTRA).*)
(***************************************************************************)
EXTENDS ConvBig, FiniteSets

Reps == IF "REPS" \in DOMAIN IOEnv /\ IOEnv.REPS # "" THEN {r \in IntReps : \E i \in 1..Len(IOEnv.REPS) : \E j \in i..Len(IOEnv.REPS) : SubSeq(IOEnv.REPS, i, j) = r /\ (j = Len(IOEnv.REPS) \/ SubSeq(IOEnv.REPS, j+1, j+1) = ",") /\ (i = 1 \/ SubSeq(IOEnv.REPS, i-1, i-1) = ",")}
        ELSE IntReps
Tier == IF "TIER" \in DOMAIN IOEnv THEN IOEnv.TIER ELSE "quick"

Norm(n, d) == LET g == Gcd(n, d) IN <<DivModT(n, g)[1], DivModT(d, g)[1]>>
Common == { <<"1","1">>, <<"2","1">>, <<"1","2">>, <<"3","1">>, <<"1","3">>, <<"10","1">>, <<"1","10">>, <<"12","1">>, <<"1","12">>,
            <<"1000","1">>, <<"1","1000">>, <<"1000000","1">>, <<"1","1000000">>, <<"1024","1">>, <<"1","1024">>,
            <<"1143","1250">>, <<"1250","1143">>, <<"5","9">>, <<"9","5">>, <<"25","9">>, <<"5","7">>, <<"7","5">>,
            <<"3","128">>, <<"127","128">>, <<"128","127">>, <<"1609344","1000">>, <<"3600","1">>, <<"1","3600">>,
            <<"254","100">>, <<"100","254">>, <<"3","2">>, <<"2","3">>, <<"1001","1000">>, <<"1000","1001">> }
CommonT == IF Tier = "quick" THEN Common
           ELSE Common \cup { <<"1000000000","1">>, <<"1","1000000000">>, <<"86400","1">>, <<"1","86400">>, <<"65536","1">>, <<"1","65536">>,
                              <<"4294967296","1">>, <<"1","4294967296">>, <<"1000000007","998244353">>, <<"998244353","1000000007">>,
                              <<"30000","1001">>, <<"1001","30000">>, <<"355","113">>, <<"113","355">>, <<"99","100">>, <<"100","99">> }
BigPrimes == { <<"18446744073709551557","3">>, <<"3","18446744073709551557">>, <<"2147483647","65538">>, <<"65538","2147483647">>,
               <<"9223372036854775783","2">>, <<"4294967291","4294967279">> }
I(k) == FromInt(k)
Boundary(t) ==
  LET p == Promote(t)  tm == MaxOf(t)  pm == MaxOf(p)  h == Pow2(BitsOf(t) - 1)
      q == DivModT(pm, tm)[1]
      base == { <<tm, I(1)>>, <<Add(tm, I(1)), I(1)>>, <<I(1), tm>>, <<I(1), Add(tm, I(1))>>,
                <<tm, I(2)>>, <<I(2), tm>>, <<tm, I(3)>>, <<I(3), tm>>, <<Sub(tm, I(1)), tm>>, <<tm, Sub(tm, I(1))>>,
                <<pm, I(2)>>, <<pm, I(3)>>, <<I(3), pm>>, <<Add(pm, I(1)), I(3)>>, <<I(3), Add(pm, I(1))>>,
                <<I(3), h>>, <<Add(h, I(1)), h>>, <<h, Add(h, I(1))>>, <<I(3), Add(h, h)>>,
                <<DivModT(tm, I(2147))[1], I(1)>>, <<Add(DivModT(tm, I(2147))[1], I(1)), I(1)>> }
      qs == IF Le(q, I(2)) THEN {}
            ELSE { <<Add(q, I(1)), q>>, <<pm, q>>, <<Add(q, I(2)), Add(q, I(1))>>, <<pm, Add(q, I(1))>>,
                   <<q, Sub(q, I(1))>>, <<pm, Sub(q, I(1))>>, <<q, Add(q, I(1))>>, <<Sub(q, I(1)), q>>,
                   <<Add(Mul(q, I(2)), I(1)), q>> }
  IN base \cup qs
Extra == IF "EXTRA" \in DOMAIN IOEnv /\ IOEnv.EXTRA # "" THEN
           LET e == ndJsonDeserialize(IOEnv.EXTRA) IN { <<BI(e[i].n), BI(e[i].d)>> : i \in 1..Len(e) }
         ELSE {}
FactorsFor(t) ==
  LET raw == { <<BI(f[1]), BI(f[2])>> : f \in CommonT \cup (IF BitsOf(t) >= 32 \/ Tier # "quick" THEN BigPrimes ELSE {}) } \cup Boundary(t) \cup Extra
  IN { Norm(f[1], f[2]) : f \in {g \in raw : g[1].s = 1 /\ g[2].s = 1} }

VARIABLES t, f
Init == t \in Reps /\ f \in FactorsFor(t)
Next == UNCHANGED <<t, f>>
Emit == PrintT(<<"CASE", ToJson(Contract(t, f[1], f[2]))>>)
=============================================================================
