---- MODULE Trace_Math ----
EXTENDS MathBig
Obs == ndJsonDeserialize(IOEnv.TRACE)
OkRec(r) == IF r.k = "round" THEN VerdictRound(r).ok ELSE IF r.k = "inverse" THEN VerdictInverse(r).ok ELSE IF r.k = "angle" THEN VerdictAngle(r).ok ELSE FALSE
Bad == {k \in 1..Len(Obs) : ~OkRec(Obs[k])}
ASSUME PrintT(<<"VALIDATED", ToJson([n |-> Len(Obs)])>>)
ASSUME \A k \in Bad : PrintT(<<"BADREC", ToJson([rec |-> Obs[k]])>>)
VARIABLE dummy
Init == dummy = 0
Next == UNCHANGED dummy
====
