INIT Init
NEXT Next
