---- MODULE Trace_Prefixes ----
(* The SI and IEC prefix tables are not inputs: kilo is 10^3 and is written "k" whatever the tree says.  Records read out of the compiled   *)
(* prefix templates applied to Meters: {prefix, mag (prime-power pack of unit_ratio(P<Meters>, Meters)), label (unit_label(P<Meters>))}.   *)
EXTENDS Integers, Sequences, FiniteSets, TLC, Json, IOUtils
Obs == ndJsonDeserialize(IOEnv.TRACE)
SI == [quetta |-> <<30, "Q">>, ronna |-> <<27, "R">>, yotta |-> <<24, "Y">>, zetta |-> <<21, "Z">>, exa |-> <<18, "E">>, peta |-> <<15, "P">>, tera |-> <<12, "T">>,
       giga |-> <<9, "G">>, mega |-> <<6, "M">>, kilo |-> <<3, "k">>, hecto |-> <<2, "h">>, deka |-> <<1, "da">>, deci |-> <<-1, "d">>, centi |-> <<-2, "c">>,
       milli |-> <<-3, "m">>, micro |-> <<-6, "u">>, nano |-> <<-9, "n">>, pico |-> <<-12, "p">>, femto |-> <<-15, "f">>, atto |-> <<-18, "a">>, zepto |-> <<-21, "z">>,
       yocto |-> <<-24, "y">>, ronto |-> <<-27, "r">>, quecto |-> <<-30, "q">>]
IEC == [kibi |-> <<10, "Ki">>, mebi |-> <<20, "Mi">>, gibi |-> <<30, "Gi">>, tebi |-> <<40, "Ti">>, pebi |-> <<50, "Pi">>, exbi |-> <<60, "Ei">>, zebi |-> <<70, "Zi">>, yobi |-> <<80, "Yi">>]
Exp(m, b) == IF \E i \in 1..Len(m) : m[i].b = b THEN (LET i == CHOOSE i \in 1..Len(m) : m[i].b = b IN IF m[i].d = 1 THEN m[i].n ELSE 0) ELSE 0
Bases(m) == {m[i].b : i \in 1..Len(m)}
MagOK(r) == IF r.prefix \in DOMAIN SI THEN Bases(r.mag) = {"2", "5"} /\ Exp(r.mag, "2") = SI[r.prefix][1] /\ Exp(r.mag, "5") = SI[r.prefix][1]
            ELSE IF r.prefix \in DOMAIN IEC THEN Bases(r.mag) = {"2"} /\ Exp(r.mag, "2") = IEC[r.prefix][1]
            ELSE FALSE
SymOK(r) == r.label = (IF r.prefix \in DOMAIN SI THEN SI[r.prefix][2] ELSE IF r.prefix \in DOMAIN IEC THEN IEC[r.prefix][2] ELSE "?") \o "m"
Known == (DOMAIN SI) \cup (DOMAIN IEC)
ASSUME PrintT(<<"VALIDATED", ToJson([n |-> Len(Obs), missing |-> Known \ {Obs[k].prefix : k \in 1..Len(Obs)}])>>)
ASSUME \A k \in 1..Len(Obs) : (MagOK(Obs[k]) /\ SymOK(Obs[k])) \/ PrintT(<<"BADREC", ToJson([prefix |-> Obs[k].prefix, mag_ok |-> MagOK(Obs[k]), symbol_ok |-> SymOK(Obs[k])])>>)
VARIABLE dummy
Init == dummy = 0
Next == UNCHANGED dummy
====
