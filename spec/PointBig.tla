------------------------------- MODULE PointBig -------------------------------
(***************************************************************************)
(* C09: exact affine semantics of QuantityPoint, over BigInt rationals.    *)
(* A point unit is [mag, origin] as read out of the compiled unit types:   *)
(* scale s = Num(mag)/Den(mag), origin o = count * Num(omag)/Den(omag).    *)
(* Position(x in U) = x*s + o.                                              *)
(***************************************************************************)
EXTENDS MagBig
PUnits == ndJsonDeserialize(IOEnv.UNITS)          \* descriptors, indexed from 1
SN(u) == Encl(u.mag, 1, 1).nl
SD(u) == Encl(u.mag, 1, 1).dl
ONum(u) == Mul(BI(u.origin.count), Encl(u.origin.mag, 1, 1).nl)
ODen(u) == Encl(u.origin.mag, 1, 1).dl
(* conversion U_i -> U_j of an integer x:  (x*A + B) / C *)
ConvA(i, j) == Mul(Mul(SN(i), ODen(i)), Mul(ODen(j), SD(j)))
ConvB(i, j) == Mul(Sub(Mul(ONum(i), ODen(j)), Mul(ONum(j), ODen(i))), Mul(SD(i), SD(j)))
ConvC(i, j) == Mul(Mul(SD(i), ODen(i)), Mul(ODen(j), SN(j)))
(* positions on the common integer grid 1 / (SD_i*ODen_i*SD_j*ODen_j) *)
PosA(i, j) == Mul(Mul(SN(i), ODen(i)), Mul(SD(j), ODen(j)))
PosB(i, j) == Mul(Mul(ONum(i), SD(i)), Mul(SD(j), ODen(j)))
Grid(i, j) == Mul(Mul(SD(i), ODen(i)), Mul(SD(j), ODen(j)))
PointContract(a, b) == LET i == PUnits[a]  j == PUnits[b] IN
  [k |-> "pcontract", i |-> a, j |-> b, A |-> ToDec(ConvA(i, j)), B |-> ToDec(ConvB(i, j)), C |-> ToDec(ConvC(i, j)),
   pa1 |-> ToDec(PosA(i, j)), pb1 |-> ToDec(PosB(i, j)), pa2 |-> ToDec(PosA(j, i)), pb2 |-> ToDec(PosB(j, i)), grid |-> ToDec(Grid(i, j))]

(* records.  conv: {i, j, x (wire), res (wire), R1, R2}  -- integral reps, small windows: every intermediate is representable *)
VerdictConv(r) == LET i == PUnits[r.i]  j == PUnits[r.j]  x == FromWire(r.x)
                      a0 == ConvA(i, j)  b0 == ConvB(i, j)  c0 == ConvC(i, j)
                      g == Gcd(Gcd(a0, b0), c0)
                      a == DivModT(a0, g)[1]  b == DivModT(b0, g)[1]  c == DivModT(c0, g)[1]
                      num == Add(Mul(x, a), b)  qr == DivModT(num, c)
                      calc == IF BitsOf(r.R1) >= BitsOf(r.R2) THEN r.R1 ELSE r.R2
                      \* every intermediate the library can form is a divisor-scaled part of these reduced numerators: if they fit the
                      \* smaller of the reps involved, "the intermediate displacement is representable in the reps used"
                      small == Le(Add(BAbs(Mul(x, a)), BAbs(b)), MaxOf(IF Signed(calc) THEN calc ELSE "i32")) /\ Le(c, MaxOf("i32"))
                      claimed == qr[2] = Zero /\ InRange(r.R2, qr[1]) /\ small IN
  \* forms: coerce_in<R>(u), coerce_as<R>(u), in<R>(u), as<R>(u) and (same rep) the unit-only coerce_in(u), coerce_as(u) all agree
  [ok |-> r.forms = 1 /\ (claimed => (FromWire(r.res) = qr[1] /\ r.ub = 0)), exact |-> qr[2] = Zero, cmp |-> (r.cexact = 1) = (qr[2] = Zero)]
(* mixed: {i, j, x, y, lt..ne, dval (wire), dmag (pack of the difference's unit), sumq (p1 + (y in U_j as quantity)) position check} *)
VerdictMixedPt(r) ==
  LET i == PUnits[r.i]  j == PUnits[r.j]  x == FromWire(r.x)  y == FromWire(r.y)
      p1 == Add(Mul(x, PosA(i, j)), PosB(i, j))   p2 == Add(Mul(y, PosA(j, i)), PosB(j, i))
      ord == Cmp(p1, p2)
      \* difference quantity: dval * Num(dmag)/Den(dmag) = (p1 - p2) / grid
      dn == Encl(r.dmag, 1, 1).nl  dd == Encl(r.dmag, 1, 1).dl
      \* p1 + q where q = y units of U_j (as a displacement): position = p1 + y*s_j  ;  logged as value sv in unit with magnitude smag, origin of U_i
      sn == Encl(r.smag, 1, 1).nl  sd == Encl(r.smag, 1, 1).dl
      qdisp == Mul(y, PosA(j, i))                                   \* y * s_j on the grid
      \* logged sum point: value sv in a unit of magnitude smag whose origin is U_i's: position*grid = sv*sn/sd*grid + PosB(i,j)
  IN [ok |-> /\ (r.lt = 1) = (ord < 0) /\ (r.le = 1) = (ord <= 0) /\ (r.gt = 1) = (ord > 0) /\ (r.ge = 1) = (ord >= 0)
             /\ (r.eq = 1) = (ord = 0) /\ (r.ne = 1) = (ord # 0)
             /\ Mul(Mul(FromWire(r.dval), dn), Grid(i, j)) = Mul(Sub(p1, p2), dd)
             /\ Mul(Mul(FromWire(r.sv), sn), Grid(i, j)) = Mul(Add(Mul(x, PosA(i, j)), qdisp), sd)
             /\ Mul(Mul(FromWire(r.mv), sn), Grid(i, j)) = Mul(Sub(Mul(x, PosA(i, j)), qdisp), sd),
      ord |-> ord]
=============================================================================
