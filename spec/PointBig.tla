------------------------------- MODULE PointBig -------------------------------
(***************************************************************************)
(* C09: exact affine semantics of QuantityPoint, over BigInt rationals.    *)
(* A point unit is [mag, origin] as read out of the compiled unit types:   *)
(* scale s = Num(mag)/Den(mag), origin o = count * Num(omag)/Den(omag).    *)
(* Position(x in U) = x*s + o.                                              *)
(***************************************************************************)
EXTENDS MagBig
PUnits == ndJsonDeserialize(IOEnv.UNITS)          \* descriptors, indexed from 1
SN(u) == Encl(u.mag, 1, 1).nl
SD(u) == Encl(u.mag, 1, 1).dl
ONum(u) == Mul(BI(u.origin.count), Encl(u.origin.mag, 1, 1).nl)
ODen(u) == Encl(u.origin.mag, 1, 1).dl
(* conversion U_i -> U_j of an integer x:  (x*A + B) / C *)
ConvA(i, j) == Mul(Mul(SN(i), ODen(i)), Mul(ODen(j), SD(j)))
ConvB(i, j) == Mul(Sub(Mul(ONum(i), ODen(j)), Mul(ONum(j), ODen(i))), Mul(SD(i), SD(j)))
ConvC(i, j) == Mul(Mul(SD(i), ODen(i)), Mul(ODen(j), SN(j)))
(* positions on the common integer grid 1 / (SD_i*ODen_i*SD_j*ODen_j) *)
PosA(i, j) == Mul(Mul(SN(i), ODen(i)), Mul(SD(j), ODen(j)))
PosB(i, j) == Mul(Mul(ONum(i), SD(i)), Mul(SD(j), ODen(j)))
Grid(i, j) == Mul(Mul(SD(i), ODen(i)), Mul(SD(j), ODen(j)))
PointContract(a, b) == LET i == PUnits[a]  j == PUnits[b] IN
  [k |-> "pcontract", i |-> a, j |-> b, A |-> ToDec(ConvA(i, j)), B |-> ToDec(ConvB(i, j)), C |-> ToDec(ConvC(i, j)),
   pa1 |-> ToDec(PosA(i, j)), pb1 |-> ToDec(PosB(i, j)), pa2 |-> ToDec(PosA(j, i)), pb2 |-> ToDec(PosB(j, i)), grid |-> ToDec(Grid(i, j))]

(* records.  conv: {i, j, x (wire), res (wire), R1, R2}  -- integral reps, small windows: every intermediate is representable *)
VerdictConv(r) == LET i == PUnits[r.i]  j == PUnits[r.j]  x == FromWire(r.x)
                      a0 == ConvA(i, j)  b0 == ConvB(i, j)  c0 == ConvC(i, j)
                      g == Gcd(Gcd(a0, b0), c0)
                      a == DivModT(a0, g)[1]  b == DivModT(b0, g)[1]  c == DivModT(c0, g)[1]
                      num == Add(Mul(x, a), b)  qr == DivModT(num, c)
                      f2 == IsFloatRep(r.R2)
                      calc == IF f2 THEN "i64" ELSE IF BitsOf(r.R1) >= BitsOf(r.R2) THEN r.R1 ELSE r.R2
                      \* every intermediate the library can form is a divisor-scaled part of these reduced numerators: if they fit the
                      \* smaller of the reps involved, "the intermediate displacement is representable in the reps used".
                      \*   floating destination: the calculation runs in that type; integers below 2^53 are exact in it
                      \*   unsigned -> unsigned with a common origin: pure scaling in the wider unsigned type, no negative intermediate
                      lim == IF f2 THEN P2(Prec(r.R2))
                             ELSE IF Signed(calc) THEN MaxOf(calc)
                             ELSE IF ~Signed(r.R1) /\ ~Signed(r.R2) /\ b = Zero THEN MaxOf(calc) ELSE MaxOf("i32")     \* b = 0: common origin
                      \* the library calculates in ITS common point unit cp (read out of CommonPointUnitT<U_i, U_j>; its correctness is C10's
                      \* subject): intermediates are x * (s_i / cp) and the origin difference in cp units; k2 = s_j / cp is the final divisor
                      cpn == Encl(r.cp, 1, 1).nl  cpd == Encl(r.cp, 1, 1).dl
                      k1qr == DivModT(Mul(SN(i), cpd), Mul(SD(i), cpn))   k2qr == DivModT(Mul(SN(j), cpd), Mul(SD(j), cpn))
                      dqr == DivModT(Mul(Sub(Mul(ONum(i), ODen(j)), Mul(ONum(j), ODen(i))), cpd), Mul(Mul(ODen(i), ODen(j)), cpn))
                      small == /\ k1qr[2] = Zero /\ k2qr[2] = Zero /\ dqr[2] = Zero
                               /\ Le(Add(BAbs(Mul(x, k1qr[1])), BAbs(dqr[1])), lim) /\ Le(k2qr[1], MaxOf("i32"))
                      inr == IF f2 THEN Le(BAbs(qr[1]), P2(Prec(r.R2))) ELSE InRange(r.R2, qr[1])
                      claimed == qr[2] = Zero /\ inr /\ small
                      \* floating destination: the stored value v = m * 2^e must satisfy |v * c - num| * 2^(p-8) <= |x*a| + |b| + c
                      fm == IF f2 THEN SMant(r.resf) ELSE Zero   fe == IF f2 THEN FExp(r.resf) ELSE 0
                      tolb == IF f2 THEN Prec(r.R2) - 8 ELSE 0
                      lhs == IF fe >= 0 THEN Mul(BAbs(Sub(Mul(Mul(fm, P2(fe)), c), num)), P2(tolb))
                             ELSE Mul(BAbs(Sub(Mul(fm, c), Mul(num, P2(-fe)))), P2(tolb))
                      rhs == IF fe >= 0 THEN Add(Add(BAbs(Mul(x, a)), BAbs(b)), c) ELSE Mul(Add(Add(BAbs(Mul(x, a)), BAbs(b)), c), P2(-fe))
                      resok == IF f2 THEN (IsFin(r.resf) /\ Le(lhs, rhs)) ELSE FromWire(r.res) = qr[1] IN
  \* forms: coerce_in<R>(u), coerce_as<R>(u), in<R>(u), as<R>(u) and (same rep) the unit-only coerce_in(u), coerce_as(u) all agree
  \* with two unsigned reps the calculation type is unsigned: wrap-around there is defined modular arithmetic, not an event
  [ok |-> r.forms = 1 /\ (claimed => (resok /\ (r.ub = 0 \/ (~f2 /\ ~Signed(r.R1) /\ ~Signed(r.R2))))), exact |-> qr[2] = Zero, cmp |-> (r.cexact = 1) = (qr[2] = Zero)]
(* mixed: {i, j, x, y, lt..ne, dval (wire), dmag (pack of the difference's unit), sumq (p1 + (y in U_j as quantity)) position check} *)
\* num / den is an integer of rep t
Fits(t, num, den) == LET q == DivModT(num, den) IN q[2] = Zero /\ InRange(t, q[1])
VerdictMixedPt(r) ==
  LET i == PUnits[r.i]  j == PUnits[r.j]  x == FromWire(r.x)  y == FromWire(r.y)
      p1 == Add(Mul(x, PosA(i, j)), PosB(i, j))   p2 == Add(Mul(y, PosA(j, i)), PosB(j, i))
      ord == Cmp(p1, p2)
      \* difference quantity: dval * Num(dmag)/Den(dmag) = (p1 - p2) / grid
      dn == Encl(r.dmag, 1, 1).nl  dd == Encl(r.dmag, 1, 1).dl
      \* p1 + q where q = y units of U_j (as a displacement): position = p1 + y*s_j  ;  logged as value sv in unit with magnitude smag, origin of U_i
      sn == Encl(r.smag, 1, 1).nl  sd == Encl(r.smag, 1, 1).dl
      qdisp == Mul(y, PosA(j, i))                                   \* y * s_j on the grid
      \* logged sum point: value sv in a unit of magnitude smag whose origin is U_i's: position*grid = sv*sn/sd*grid + PosB(i,j)
  IN [ok |-> /\ (r.lt = 1) = (ord < 0) /\ (r.le = 1) = (ord <= 0) /\ (r.gt = 1) = (ord > 0) /\ (r.ge = 1) = (ord >= 0)
             /\ (r.eq = 1) = (ord = 0) /\ (r.ne = 1) = (ord # 0)
             \* exact difference / shifted values, demanded wherever the exact value is representable in the result's rep (an unsigned result
             \* cannot hold a negative displacement)
             /\ Fits(r.dR, Mul(Sub(p1, p2), dd), Mul(dn, Grid(i, j))) => Mul(Mul(FromWire(r.dval), dn), Grid(i, j)) = Mul(Sub(p1, p2), dd)
             /\ Fits(r.sR, Mul(Add(Mul(x, PosA(i, j)), qdisp), sd), Mul(sn, Grid(i, j))) => Mul(Mul(FromWire(r.sv), sn), Grid(i, j)) = Mul(Add(Mul(x, PosA(i, j)), qdisp), sd)
             /\ Fits(r.sR, Mul(Sub(Mul(x, PosA(i, j)), qdisp), sd), Mul(sn, Grid(i, j))) => Mul(Mul(FromWire(r.mv), sn), Grid(i, j)) = Mul(Sub(Mul(x, PosA(i, j)), qdisp), sd),
      ord |-> ord]
=============================================================================
