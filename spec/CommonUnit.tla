----------------------------- MODULE CommonUnit -----------------------------
(***************************************************************************)
(* CommonUnitT<Us...> (unit_of_measure.hh:540-700) as a pipeline:          *)
(*   FlatSort   -- FlatDedupedTypeList: insertion into a list ordered by   *)
(*                 the unit gauntlet, dropping duplicates                  *)
(*   Eliminate  -- EliminateRedundantUnits                                  *)
(*   FirstMatch -- FirstMatchingUnit<AreUnitsQuantityEquivalent>            *)
(*   Simplify   -- SimplifyIfOnlyOneUnscaledUnit                            *)
(* Property level (C07): the common unit's magnitude is the base-wise      *)
(* minimum of the inputs' exponents (the gcd), each input is a positive    *)
(* integer multiple of it, the integers are jointly coprime, the result is *)
(* an input whenever an input already is that unit, and the resulting type *)
(* does not depend on order or repetition of the inputs.                   *)
(***************************************************************************)
EXTENDS Units

QEquiv(a, b) == DimOf(a) = DimOf(b) /\ MagOf(a) = MagOf(b)
Ratio(a, b) == MagProd(MagOf(a), PackPow(MagOf(b), <<-1, 1>>))           \* UnitRatioT<a, b>
IsIntegerMag(m) == \A i \in 1..Len(m) : m[i].b # 7 /\ m[i].e[2] = 1 /\ m[i].e[1] > 0

(* ---- FlatDedupedTypeList ---- *)
RECURSIVE InsertU(_,_)
InsertU(t, lst) ==        \* FlatDedupedTypeList<List, List<T>, List<H, Ts...>>
  IF lst = <<>> THEN <<t>>
  ELSE LET h == Head(lst) IN
       IF t = h THEN lst
       ELSE IF UCmp(t, h) = "lt" THEN <<t>> \o lst
       ELSE <<h>> \o InsertU(t, Tail(lst))
RECURSIVE FlatSort(_)
Flatten(u) == IF u.k = "common" THEN u.us ELSE <<u>>
RECURSIVE InsertAll(_,_)
InsertAll(xs, lst) == IF xs = <<>> THEN lst ELSE InsertAll(Tail(xs), InsertU(Head(xs), lst))
FlatSort(us) == IF us = <<>> THEN <<>> ELSE InsertAll(Flatten(Head(us)), FlatSort(Tail(us)))

(* ---- EliminateRedundantUnits ---- *)
FirstRedundant(u1, u2) == IF u1 = u2 THEN TRUE
                          ELSE IF QEquiv(u1, u2) THEN UCmp(u2, u1) = "lt"
                          ELSE IsIntegerMag(Ratio(u1, u2))
RECURSIVE Elim(_)
Elim(lst) ==
  IF lst = <<>> THEN <<>>
  ELSE LET h == Head(lst)  ts == Tail(lst) IN
       IF \E i \in 1..Len(ts) : FirstRedundant(h, ts[i]) THEN Elim(ts)
       ELSE <<h>> \o Elim(SelectSeq(ts, LAMBDA x : ~FirstRedundant(x, h)))

MkCommon(lst) == IF Len(lst) = 1 THEN lst[1] ELSE [k |-> "common", us |-> lst]
(* ---- FirstMatchingUnit / SimplifyIfOnlyOneUnscaledUnit ---- *)
FirstMatch(target, lst) == IF \E i \in 1..Len(lst) : QEquiv(target, lst[i])
                           THEN lst[CHOOSE i \in 1..Len(lst) : QEquiv(target, lst[i]) /\ \A j \in 1..(i-1) : ~QEquiv(target, lst[j])]
                           ELSE target
Unscaled(u) == IF u.k = "scaled" THEN u.u ELSE u
RECURSIVE DedupSorted(_)
DedupSorted(xs) == IF xs = <<>> THEN <<>> ELSE InsertU(Head(xs), DedupSorted(Tail(xs)))
Simplify(u) == LET parts == IF u.k = "common" THEN DedupSorted([i \in 1..Len(u.us) |-> Unscaled(u.us[i])]) ELSE <<Unscaled(u)>>
               IN IF Len(parts) = 1 THEN UScale(parts[1], Ratio(u, parts[1])) ELSE u
CommonAlgo(us) == LET lst == Elim(FlatSort(us))  c == MkCommon(lst) IN Simplify(FirstMatch(c, lst))

(* ---- property level ---- *)
RECURSIVE MinMap(_)
MagMap(u) == MapOf(MagOf(u))
ExpOr0(f, b) == IF b \in DOMAIN f THEN f[b] ELSE <<0, 1>>
RMin(p, q) == IF RLess(p, q) THEN p ELSE q
MinMap(us) == IF Len(us) = 1 THEN MagMap(us[1])
              ELSE LET f == MagMap(us[1])  g == MinMap(Tail(us))  D == DOMAIN f \cup DOMAIN g
                       h == [b \in D |-> RMin(ExpOr0(f, b), ExpOr0(g, b))]
                   IN [b \in {x \in D : ~RZero(h[x])} |-> h[b]]
RationalRatios(us) == \A i, j \in 1..Len(us) : \A k \in 1..Len(Ratio(us[i], us[j])) : Ratio(us[i], us[j])[k].b # 7 /\ Ratio(us[i], us[j])[k].e[2] = 1
AnyBroken(us) == \E i, j \in 1..Len(us) : UCmp(us[i], us[j]) = "broken"
=============================================================================
