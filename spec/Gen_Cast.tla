------------------------------ MODULE Gen_Cast ------------------------------
(* Case emission for C05: every ordered (source rep, target rep) pair x factor grid.           *)
(* Integral pairs get the closed-form three-stage contract; pairs with a floating type on the   *)
(* path are emitted as plain instances (their records are all validated by TLC).                *)
EXTENDS CastBig, FiniteSets
Tier == IF "TIER" \in DOMAIN IOEnv THEN IOEnv.TIER ELSE "quick"
AllReps == IntReps \cup FloatReps
FQuick == { <<"1","1">>, <<"1000","1">>, <<"1","1000">>, <<"3","1">>, <<"1","3">>, <<"5","9">>, <<"9","5">>, <<"1143","1250">>,
            <<"3","128">>, <<"127","128">>, <<"1024","1">>, <<"1","1024">> }
FThorough == FQuick \cup { <<"2","1">>, <<"1","2">>, <<"1000000","1">>, <<"1","1000000">>, <<"1000000000","1">>, <<"1","1000000000">>, <<"25","9">>, <<"7","5">>,
            <<"65536","1">>, <<"1","65536">>, <<"4294967296","1">>, <<"1","4294967296">>, <<"3600","1">>, <<"1","3600">>, <<"1001","1000">>, <<"1000","1001">>,
            <<"18446744073709551557","3">>, <<"3","18446744073709551557">>, <<"2147483647","65538">>, <<"255","256">>, <<"257","256">>, <<"65535","65536">>,
            <<"32768","32767">>, <<"2147483648","2147483647">>, <<"3","2147483648">>, <<"50","127">>, <<"127","50">> }
Grid == IF Tier = "quick" THEN FQuick ELSE FThorough
Extra == IF "EXTRA" \in DOMAIN IOEnv /\ IOEnv.EXTRA # "" THEN
           LET e == ndJsonDeserialize(IOEnv.EXTRA) IN { <<e[i].n, e[i].d>> : i \in 1..Len(e) }
         ELSE {}
VARIABLES s, t, f
Init == s \in AllReps /\ t \in AllReps /\ f \in Grid \cup Extra
Next == UNCHANGED <<s, t, f>>
Case == IF s \in IntReps /\ t \in IntReps THEN Contract3(s, t, BI(f[1]), BI(f[2]))
        ELSE [k |-> "finst", S |-> s, T |-> t, C |-> CommonType(s, t), N |-> f[1], D |-> f[2]]
Emit == PrintT(<<"CASE", ToJson(Case)>>)
=============================================================================
