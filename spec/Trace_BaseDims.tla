---- MODULE Trace_BaseDims ----
(* The seven SI base quantities, plane angle and information are independent dimensions: the base units of the library must each have a *)
(* dimension of their own (one base dimension to the first power), pairwise different.  Like the prefix tables this is specification,   *)
(* not an input read from the tree.  Records: {id, dim: [{b, n, d}]} read out of the compiled base units.                               *)
EXTENDS Integers, Sequences, FiniteSets, TLC, Json, IOUtils
Obs == ndJsonDeserialize(IOEnv.TRACE)
BaseUnitNames == {"Meters", "Grams", "Seconds", "Amperes", "Kelvins", "Moles", "Candelas", "Radians", "Bits"}
Single(r) == Len(r.dim) = 1 /\ r.dim[1].n = 1 /\ r.dim[1].d = 1
Clash == {<<i, j>> \in (1..Len(Obs)) \X (1..Len(Obs)) : i < j /\ Single(Obs[i]) /\ Single(Obs[j]) /\ Obs[i].dim[1].b = Obs[j].dim[1].b}
ASSUME PrintT(<<"VALIDATED", ToJson([n |-> Len(Obs), missing |-> BaseUnitNames \ {Obs[k].id : k \in 1..Len(Obs)}])>>)
ASSUME \A k \in 1..Len(Obs) : Single(Obs[k]) \/ PrintT(<<"BADREC", ToJson([id |-> Obs[k].id, with |-> "", why |-> "not a single base dimension to the first power"])>>)
ASSUME \A p \in Clash : PrintT(<<"BADREC", ToJson([id |-> Obs[p[1]].id, with |-> Obs[p[2]].id, why |-> "two base units share one dimension"])>>)
VARIABLE dummy
Init == dummy = 0
Next == UNCHANGED dummy
====
