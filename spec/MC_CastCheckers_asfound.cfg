CONSTANTS IntBits = 6 FixedUpperBound = FALSE
SPECIFICATION Spec
INVARIANTS ClearedDefined ClearedExact ClearedFloatToInt UncastableIsLossy IntOvfOnlyIfReal
