---- MODULE Gen_Mixed ----
(* Case emission for C08: rep pairs of equal signedness x unit pairs (integer, reciprocal, general rational ratios, equal) *)
EXTENDS QuantityBig
Tier == IF "TIER" \in DOMAIN IOEnv THEN IOEnv.TIER ELSE "quick"
RepPairs == { <<"i8","i16">>, <<"i16","i8">>, <<"u8","u16">>, <<"i16","i16">>, <<"i16","i32">>, <<"i32","i32">>, <<"u16","u32">>, <<"u32","u32">>,
              <<"i32","i64">>, <<"i64","i64">>, <<"u32","u64">>, <<"u64","u64">>, <<"i8","i32">>, <<"u8","u64">>, <<"i64","i16">> }
UnitPairsQ == { <<"1","1","1","1">>, <<"3","1","1","1">>, <<"1","1","12","1">>, <<"1","3","1","1">>, <<"1","1","1","1000">>, <<"3","2","1","1">>, <<"2","3","3","4">>,
                <<"5","9","1","1">>, <<"1000","1","1","1">>, <<"254","100","1","12">>, <<"1","1","1000000","1">> }
UnitPairsT == UnitPairsQ \cup { <<"1609344","1000","1","1">>, <<"1","1000000","1","1000">>, <<"7","5","11","3">>, <<"1","1","1000000000","1">>, <<"1","60","1","1000">>,
                                <<"1000225","1","1","1">>, <<"1000226","1","1","1">>, <<"15","1","1","1">>, <<"16","1","1","1">>, <<"1","1","4296167339476840","1">> }
UnitPairs == IF Tier = "quick" THEN UnitPairsQ ELSE UnitPairsT
VARIABLES rp, up
Init == rp \in RepPairs /\ up \in UnitPairs
Next == UNCHANGED <<rp, up>>
Emit == PrintT(<<"CASE", ToJson(MixedContract(rp[1], BI(up[1]), BI(up[2]), rp[2], BI(up[3]), BI(up[4])))>>)
====
