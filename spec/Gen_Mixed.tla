---- MODULE Gen_Mixed ----
(* Case emission for C08: rep pairs of equal signedness x unit pairs (integer, reciprocal, general rational ratios, equal) *)
EXTENDS QuantityBig
Tier == IF "TIER" \in DOMAIN IOEnv THEN IOEnv.TIER ELSE "quick"
RepPairs == { <<"i8","i16">>, <<"i16","i8">>, <<"u8","u16">>, <<"i16","i16">>, <<"i16","i32">>, <<"i32","i32">>, <<"u16","u32">>, <<"u32","u32">>,
              <<"i32","i64">>, <<"i64","i64">>, <<"u32","u64">>, <<"u64","u64">>, <<"i8","i32">>, <<"u8","u64">>, <<"i64","i16">> }
UnitPairsQ == { <<"1","1","1","1">>, <<"3","1","1","1">>, <<"1","1","12","1">>, <<"1","3","1","1">>, <<"1","1","1","1000">>, <<"3","2","1","1">>, <<"2","3","3","4">>,
                <<"5","9","1","1">>, <<"1000","1","1","1">>, <<"254","100","1","12">>, <<"1","1","1000000","1">> }
UnitPairsT == UnitPairsQ \cup { <<"1609344","1000","1","1">>, <<"1","1000000","1","1000">>, <<"7","5","11","3">>, <<"1","1","1000000000","1">>, <<"1","60","1","1000">>,
                                <<"1000225","1","1","1">>, <<"1000226","1","1","1">>, <<"15","1","1","1">>, <<"16","1","1","1">>, <<"1","1","4296167339476840","1">> }
RepPairsF == { <<"f32","f32">>, <<"f64","f64">>, <<"f32","f64">>, <<"f64","f32">>, <<"i32","f64">>, <<"f32","i64">>, <<"u16","f32">>, <<"f64","u64">>, <<"f80","f64">>, <<"i8","f32">> }
FContract(r1, n1, d1, r2, n2, d2) ==
  [k |-> "mixedf", R1 |-> r1, R2 |-> r2, N1 |-> ToDec(n1), D1 |-> ToDec(d1), N2 |-> ToDec(n2), D2 |-> ToDec(d2),
   K1 |-> ToDec(Cof1(n1, d1, n2, d2)), K2 |-> ToDec(Cof2(n1, d1, n2, d2)), RC |-> CommonType(r1, r2), enabled |-> TRUE]
UnitPairs == IF Tier = "quick" THEN UnitPairsQ ELSE UnitPairsT
VARIABLES rp, up
Init == rp \in (RepPairs \cup RepPairsF) /\ up \in UnitPairs
Next == UNCHANGED <<rp, up>>
Emit == IF rp \in RepPairsF THEN PrintT(<<"CASE", ToJson(FContract(rp[1], BI(up[1]), BI(up[2]), rp[2], BI(up[3]), BI(up[4])))>>)
        ELSE PrintT(<<"CASE", ToJson(MixedContract(rp[1], BI(up[1]), BI(up[2]), rp[2], BI(up[3]), BI(up[4])))>>)
====
