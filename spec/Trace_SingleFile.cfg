INIT Init
NEXT Next
