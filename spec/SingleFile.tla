----------------------------- MODULE SingleFile -----------------------------
(* Model of tools/bin/make-single-file: parse_files (worklist closure) and     *)
(* sort_topologically (passes that clean dependants during the pass).          *)
EXTENDS Integers, Sequences, FiniteSets, TLC
CONSTANT N
Files == 1..N
SeqOfSet(S) == LET RECURSIVE F(_) F(T) == IF T = {} THEN <<>> ELSE LET m == CHOOSE x \in T : \A y \in T : x <= y IN <<m>> \o F(T \ {m}) IN F(S)
Graphs == [Files -> SUBSET Files]
RECURSIVE Reach(_,_,_)
Reach(g, S, k) == IF k = 0 THEN S ELSE Reach(g, S \cup UNION {g[f] : f \in S}, k-1)
Closure(g, S) == Reach(g, S, N)
Acyclic(g) == \A f \in Files : f \notin Closure(g, g[f])
Selections == {<<a>> : a \in Files} \cup {<<a,b>> : a \in Files, b \in Files}

VARIABLES g, sel, phase, todo, files, deps, ready
vars == <<g, sel, phase, todo, files, deps, ready>>
InSeq(x, s) == \E i \in 1..Len(s) : s[i] = x
Init == /\ g \in {h \in Graphs : Acyclic(h)} /\ sel \in Selections
        /\ phase = "parse" /\ todo = sel /\ files = <<>> /\ deps = [f \in {} |-> <<>>] /\ ready = <<>>

(* one iteration of the while loop in parse_files *)
RECURSIVE PushMissing(_,_,_)
PushMissing(td, incs, known) == IF incs = <<>> THEN td ELSE
   PushMissing(IF InSeq(Head(incs), known) THEN td ELSE Append(td, Head(incs)), Tail(incs), known)
ParseStep ==
  /\ phase = "parse" /\ todo # <<>>
  /\ LET nf == todo[Len(todo)]
         rest == SubSeq(todo, 1, Len(todo)-1)
         files2 == IF InSeq(nf, files) THEN files ELSE Append(files, nf)      \* dict: re-assignment keeps position
         incs == SeqOfSet(g[nf])
     IN /\ files' = files2
        /\ deps' = [f \in DOMAIN deps \cup {nf} |-> IF f = nf THEN incs ELSE deps[f]]
        /\ todo' = PushMissing(rest, incs, files2)
  /\ UNCHANGED <<g, sel, phase, ready>>
ParseDone == phase = "parse" /\ todo = <<>> /\ phase' = "sort" /\ UNCHANGED <<g, sel, todo, files, deps, ready>>

(* one pass of sort_topologically over the dict order `order`; d = current dependency lists *)
RemoveFirst(s, x) == IF ~InSeq(x, s) THEN s ELSE LET i == CHOOSE i \in 1..Len(s) : s[i] = x /\ \A j \in 1..(i-1) : s[j] # x IN SubSeq(s,1,i-1) \o SubSeq(s,i+1,Len(s))
RECURSIVE Pass(_,_,_,_)
Pass(order, i, d, added) ==
  IF i > Len(order) THEN <<d, added>>
  ELSE LET f == order[i] IN
       IF d[f] = <<>> THEN Pass(order, i+1, [h \in DOMAIN d |-> RemoveFirst(d[h], f)], Append(added, f))
       ELSE Pass(order, i+1, d, added)
Unvisited == SelectSeq(files, LAMBDA f : ~InSeq(f, ready))
SortPass ==
  /\ phase = "sort" /\ Unvisited # <<>>
  /\ LET r == Pass(Unvisited, 1, deps, <<>>) IN
       /\ deps' = r[1] /\ ready' = ready \o r[2]
       /\ r[2] # <<>>                                   \* progress (would loop forever otherwise)
  /\ UNCHANGED <<g, sel, phase, todo, files>>
SortDone == phase = "sort" /\ Unvisited = <<>> /\ phase' = "done" /\ UNCHANGED <<g, sel, todo, files, deps, ready>>
Next == ParseStep \/ ParseDone \/ SortPass \/ SortDone

SetOf(s) == {s[i] : i \in 1..Len(s)}
Pos(s, x) == CHOOSE i \in 1..Len(s) : s[i] = x
Correct == phase = "done" =>
   /\ SetOf(ready) = Closure(g, SetOf(sel))                         \* exactly the include closure
   /\ Len(ready) = Cardinality(SetOf(ready))                        \* each file once
   /\ \A f \in SetOf(ready) : \A h \in g[f] : Pos(ready, h) < Pos(ready, f)   \* includes first
NoStall == (phase = "sort" /\ Unvisited # <<>>) => ENABLED SortPass
=============================================================================
