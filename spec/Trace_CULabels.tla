---- MODULE Trace_CULabels ----
(* C18, labels of common units.  The library prints CommonUnit<U1..Un> as EQUIV{[(c/m1) l1], ..., [(c/mn) ln]}: the size of the common unit *)
(* in terms of each constituent it kept (redundant constituents are dropped first; a common unit that collapses to one unit prints that     *)
(* unit's label).  Property level: every printed element must be the grammar's label of some input scaled to the common unit's size (which   *)
(* therefore denotes the common unit), without repetition; the framing and sizeof are checked literally.  es: the input unit expressions.   *)
EXTENDS Labels, Catalogue, Json, IOUtils
Obs == ndJsonDeserialize(IOEnv.TRACE)
Terms(r) == [i \in 1..Len(r.es) |-> TypeNF(r.es[i])]
Elem(r, i) == LET t == Terms(r) IN LabelOf(UScale(t[i], MagProd(CommonMagOfList(t), PackPow(MagOf(t[i]), <<-1, 1>>))))
AllElems(r) == {Elem(r, i) : i \in 1..Len(r.es)}
RECURSIVE Join(_,_)
Join(s, i) == IF i > Len(s) THEN "" ELSE s[i] \o (IF i < Len(s) THEN ", " ELSE "") \o Join(s, i + 1)
OkRec(r) == /\ Len(r.elems) >= 1
            /\ \A i \in 1..Len(r.elems) : r.elems[i] \in AllElems(r)
            /\ \A i, j \in 1..Len(r.elems) : i # j => r.elems[i] # r.elems[j]
            /\ r.label = (IF Len(r.elems) = 1 THEN r.elems[1] ELSE "EQUIV{" \o Join(r.elems, 1) \o "}")
            /\ r.size = Len(r.label) + 1 /\ r.len = Len(r.label) /\ r.nul = 1
Bad == {k \in 1..Len(Obs) : ~OkRec(Obs[k])}
ASSUME PrintT(<<"VALIDATED", ToJson([n |-> Len(Obs)])>>)
ASSUME \A k \in Bad : PrintT(<<"BADREC", ToJson([rec |-> Obs[k], expected |-> AllElems(Obs[k])])>>)
VARIABLE dummy
Init == dummy = 0
Next == UNCHANGED dummy
====
