---- MODULE Trace_Units ----
(* Layer C of C02: the dimension / magnitude packs read out of the compiled unit types must be the   *)
(* denotation of the expression (exponent maps), whatever the order inside the packs.                *)
EXTENDS Units, Catalogue, Json, IOUtils
Obs == ndJsonDeserialize(IOEnv.TRACE)
AsSet(f) == {[b |-> k, n |-> f[k][1], d |-> f[k][2]] : k \in DOMAIN f}
SetOfSeq(s) == {s[i] : i \in 1..Len(s)}
NoDup(s) == \A i, j \in 1..Len(s) : i # j => s[i].b # s[j].b
OkRec(r) == /\ SetOfSeq(r.dim) = AsSet(DenDim(r.e)) /\ NoDup(r.dim)
            /\ SetOfSeq(r.mag) = AsSet(DenMag(r.e)) /\ NoDup(r.mag)
Bad == {k \in 1..Len(Obs) : ~OkRec(Obs[k])}
ASSUME PrintT(<<"VALIDATED", ToJson([n |-> Len(Obs)])>>)
ASSUME \A k \in Bad : PrintT(<<"BADREC", ToJson([rec |-> Obs[k]])>>)
VARIABLE dummy
Init == dummy = 0
Next == UNCHANGED dummy
====
