INIT Init
NEXT Next
