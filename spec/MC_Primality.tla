---- MODULE MC_Primality ----
EXTENDS NumberTheory
InitP == n \in 2..Max /\ a = 0 /\ b = 0
====
