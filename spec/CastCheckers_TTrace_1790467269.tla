---- MODULE CastCheckers_TTrace_1790467269 ----
EXTENDS Sequences, TLCExt, CastCheckers, Toolbox, Naturals, TLC

_expression ==
    LET CastCheckers_TEExpression == INSTANCE CastCheckers_TEExpression
    IN CastCheckers_TEExpression!expression
----

_trace ==
    LET CastCheckers_TETrace == INSTANCE CastCheckers_TETrace
    IN CastCheckers_TETrace!trace
----

_inv ==
    ~(
        TLCGet("level") = Len(_TETrace)
        /\
        res = (16)
        /\
        s = ([f |-> 1, p |-> 3, emin |-> -2, emax |-> 8])
        /\
        pc = ("done")
        /\
        t = ([s |-> FALSE, b |-> 4])
        /\
        def = (FALSE)
        /\
        trunc = (FALSE)
        /\
        x = ([v |-> 4096, c |-> "fin"])
        /\
        y = ([v |-> 4096, c |-> "fin"])
        /\
        ovf = (FALSE)
    )
----

_init ==
    /\ s = _TETrace[1].s
    /\ t = _TETrace[1].t
    /\ x = _TETrace[1].x
    /\ y = _TETrace[1].y
    /\ pc = _TETrace[1].pc
    /\ ovf = _TETrace[1].ovf
    /\ def = _TETrace[1].def
    /\ res = _TETrace[1].res
    /\ trunc = _TETrace[1].trunc
----

_next ==
    /\ \E i,j \in DOMAIN _TETrace:
        /\ \/ /\ j = i + 1
              /\ i = TLCGet("level")
        /\ s  = _TETrace[i].s
        /\ s' = _TETrace[j].s
        /\ t  = _TETrace[i].t
        /\ t' = _TETrace[j].t
        /\ x  = _TETrace[i].x
        /\ x' = _TETrace[j].x
        /\ y  = _TETrace[i].y
        /\ y' = _TETrace[j].y
        /\ pc  = _TETrace[i].pc
        /\ pc' = _TETrace[j].pc
        /\ ovf  = _TETrace[i].ovf
        /\ ovf' = _TETrace[j].ovf
        /\ def  = _TETrace[i].def
        /\ def' = _TETrace[j].def
        /\ res  = _TETrace[i].res
        /\ res' = _TETrace[j].res
        /\ trunc  = _TETrace[i].trunc
        /\ trunc' = _TETrace[j].trunc

\* Uncomment the ASSUME below to write the states of the error trace
\* to the given file in Json format. Note that you can pass any tuple
\* to `JsonSerialize`. For example, a sub-sequence of _TETrace.
    \* ASSUME
    \*     LET J == INSTANCE Json
    \*         IN J!JsonSerialize("CastCheckers_TTrace_1790467269.json", _TETrace)

=============================================================================

 Note that you can extract this module `CastCheckers_TEExpression`
  to a dedicated file to reuse `expression` (the module in the 
  dedicated `CastCheckers_TEExpression.tla` file takes precedence 
  over the module `CastCheckers_TEExpression` below).

---- MODULE CastCheckers_TEExpression ----
EXTENDS Sequences, TLCExt, CastCheckers, Toolbox, Naturals, TLC

expression == 
    [
        \* To hide variables of the `CastCheckers` spec from the error trace,
        \* remove the variables below.  The trace will be written in the order
        \* of the fields of this record.
        s |-> s
        ,t |-> t
        ,x |-> x
        ,y |-> y
        ,pc |-> pc
        ,ovf |-> ovf
        ,def |-> def
        ,res |-> res
        ,trunc |-> trunc
        
        \* Put additional constant-, state-, and action-level expressions here:
        \* ,_stateNumber |-> _TEPosition
        \* ,_sUnchanged |-> s = s'
        
        \* Format the `s` variable as Json value.
        \* ,_sJson |->
        \*     LET J == INSTANCE Json
        \*     IN J!ToJson(s)
        
        \* Lastly, you may build expressions over arbitrary sets of states by
        \* leveraging the _TETrace operator.  For example, this is how to
        \* count the number of times a spec variable changed up to the current
        \* state in the trace.
        \* ,_sModCount |->
        \*     LET F[s \in DOMAIN _TETrace] ==
        \*         IF s = 1 THEN 0
        \*         ELSE IF _TETrace[s].s # _TETrace[s-1].s
        \*             THEN 1 + F[s-1] ELSE F[s-1]
        \*     IN F[_TEPosition - 1]
    ]

=============================================================================



Parsing and semantic processing can take forever if the trace below is long.
 In this case, it is advised to uncomment the module below to deserialize the
 trace from a generated binary file.

\*
\*---- MODULE CastCheckers_TETrace ----
\*EXTENDS IOUtils, CastCheckers, TLC
\*
\*trace == IODeserialize("CastCheckers_TTrace_1790467269.bin", TRUE)
\*
\*=============================================================================
\*

---- MODULE CastCheckers_TETrace ----
EXTENDS CastCheckers, TLC

trace == 
    <<
    ([res |-> [v |-> 4096, c |-> "fin"],s |-> [f |-> 1, p |-> 3, emin |-> -2, emax |-> 8],pc |-> "start",t |-> [s |-> FALSE, b |-> 4],def |-> TRUE,trunc |-> FALSE,x |-> [v |-> 4096, c |-> "fin"],y |-> [v |-> 4096, c |-> "fin"],ovf |-> FALSE]),
    ([res |-> [v |-> 4096, c |-> "fin"],s |-> [f |-> 1, p |-> 3, emin |-> -2, emax |-> 8],pc |-> "common",t |-> [s |-> FALSE, b |-> 4],def |-> TRUE,trunc |-> FALSE,x |-> [v |-> 4096, c |-> "fin"],y |-> [v |-> 4096, c |-> "fin"],ovf |-> FALSE]),
    ([res |-> [v |-> 4096, c |-> "fin"],s |-> [f |-> 1, p |-> 3, emin |-> -2, emax |-> 8],pc |-> "scaled",t |-> [s |-> FALSE, b |-> 4],def |-> TRUE,trunc |-> FALSE,x |-> [v |-> 4096, c |-> "fin"],y |-> [v |-> 4096, c |-> "fin"],ovf |-> FALSE]),
    ([res |-> 16,s |-> [f |-> 1, p |-> 3, emin |-> -2, emax |-> 8],pc |-> "done",t |-> [s |-> FALSE, b |-> 4],def |-> FALSE,trunc |-> FALSE,x |-> [v |-> 4096, c |-> "fin"],y |-> [v |-> 4096, c |-> "fin"],ovf |-> FALSE])
    >>
----


=============================================================================

---- CONFIG CastCheckers_TTrace_1790467269 ----
CONSTANTS
    IntBits = 6
    FixedUpperBound = FALSE

INVARIANT
    _inv

CHECK_DEADLOCK
    \* CHECK_DEADLOCK off because of PROPERTY or INVARIANT above.
    FALSE

INIT
    _init

NEXT
    _next

CONSTANT
    _TETrace <- _trace

ALIAS
    _expression
=============================================================================
\* Generated on Sun Sep 27 00:01:15 UTC 2026