------------------------------- MODULE ZeroOps -------------------------------
(* C19: ZERO is the exact zero of every unit.  Actions of the type-state machine with a Zero operand behave as the     *)
(* stored value 0 of the other operand's type: comparisons are the comparisons of the stored value with 0,            *)
(* q + ZERO = q - ZERO = q, ZERO - q = -q, Quantity(ZERO) stores 0.                                                     *)
EXTENDS CastBig
(* sign of a stored value: -1, 0, 1, or "nan" *)
SignOf(r) == IF IsFloatRep(r.R) THEN (IF r.x.cls = "nan" THEN 2 ELSE IF r.x.cls = "zero" THEN 0 ELSE IF r.x.s = 1 THEN -1 ELSE 1)
             ELSE FromWire(r.x).s
(* record: {R, x (wire | float), q_op_z: [lt,le,gt,ge,eq,ne], z_op_q: [...], plus_same, minus_same, zminus_neg, init_zero (0/1)} *)
Expect(s, flip) == LET t == IF flip /\ s # 2 THEN -s ELSE s IN
  IF t = 2 THEN [lt |-> 0, le |-> 0, gt |-> 0, ge |-> 0, eq |-> 0, ne |-> 1]
  ELSE [lt |-> IF t < 0 THEN 1 ELSE 0, le |-> IF t <= 0 THEN 1 ELSE 0, gt |-> IF t > 0 THEN 1 ELSE 0, ge |-> IF t >= 0 THEN 1 ELSE 0,
        eq |-> IF t = 0 THEN 1 ELSE 0, ne |-> IF t # 0 THEN 1 ELSE 0]
VerdictZero(r) == LET s == SignOf(r) IN
  /\ r.qz = Expect(s, FALSE)          \* (q op ZERO) = (x op 0)
  /\ r.zq = Expect(s, TRUE)           \* (ZERO op q) = (0 op x)
  /\ r.plus_same = 1 /\ r.minus_same = 1 /\ r.zplus_same = 1 /\ r.zminus_neg = 1 /\ r.init_zero = 1
=============================================================================
