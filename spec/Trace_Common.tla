---- MODULE Trace_Common ----
(* Layer C of C07: cofactors unit_ratio(U_i, CommonUnitT<Us...>) read out of the compiled types, judged against *)
(* the property-level gcd (base-wise minimum).                                                                  *)
EXTENDS CommonUnit, Catalogue, Json, IOUtils
Obs == ndJsonDeserialize(IOEnv.TRACE)
AsSet(f) == {[b |-> k, n |-> f[k][1], d |-> f[k][2]] : k \in DOMAIN f}
SetOfSeq(s) == {s[i] : i \in 1..Len(s)}
Terms(r) == [i \in 1..Len(r.es) |-> TypeNF(r.es[i])]
Cof(r, i) == MapMul(MagMap(Terms(r)[i]), MapPow(MinMap(Terms(r)), <<-1, 1>>))
OkRec(r) == \A i \in 1..Len(r.es) : SetOfSeq(r.ratios[i]) = AsSet(Cof(r, i))
Bad == {k \in 1..Len(Obs) : ~OkRec(Obs[k])}
ASSUME PrintT(<<"VALIDATED", ToJson([n |-> Len(Obs)])>>)
ASSUME \A k \in Bad : PrintT(<<"BADREC", ToJson([rec |-> Obs[k]])>>)
VARIABLE dummy
Init == dummy = 0
Next == UNCHANGED dummy
====
