CONSTANTS IntBits = 6 Thresh = 2 RepsA <- MCReps Ratios <- MCRatios
SPECIFICATION Spec
INVARIANTS ComparisonsExact ComparisonsConsistent SumExact DifExact RemExact SpaceshipAgrees NoUBWhenReady
