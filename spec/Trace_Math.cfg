INIT Init
NEXT Next
