CONSTANTS KMax = 1001500
INIT Init
NEXT Next
INVARIANT RoundTrip
