---- MODULE MC_Quantity ----
EXTENDS Quantity
MCReps == {Rep(4, TRUE), Rep(6, TRUE), Rep(8, TRUE), Rep(4, FALSE), Rep(6, FALSE)}
MCRatios == {<<1, 1>>, <<2, 1>>, <<3, 1>>, <<1, 2>>, <<2, 3>>, <<3, 2>>, <<6, 1>>}
====
