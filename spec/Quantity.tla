------------------------------ MODULE Quantity ------------------------------
(***************************************************************************)
(* Layer A model of mixed-unit operations on Quantity (quantity.hh:        *)
(* using_common_type / cast_to_common_type, operator%, operator<=>) on the *)
(* scaled machine of CxxInt.  One length-like dimension; a unit is a       *)
(* positive rational multiple <<n, d>> of the base unit.                   *)
(*                                                                         *)
(* State machine (one mixed operation):                                    *)
(*   CommonUnit    -- the gcd unit and the integer cofactors k1, k2        *)
(*   CastToCommon  -- rep_cast to the common rep, then integer multiply    *)
(*                    (guard: both conversions implicitly permitted)       *)
(*   Apply         -- the raw operator on the two converted values         *)
(* Property level (C08): whenever neither scaling overflows the rep it is  *)
(* carried out in (and the raw operation itself does not overflow), the    *)
(* six comparisons agree with the exact rational order of value x unit,    *)
(* +, -, % are the exact rational sum, difference, remainder in the common *)
(* unit, <=> agrees with the comparisons; the comparisons are mutually     *)
(* consistent and antisymmetric.                                           *)
(***************************************************************************)
EXTENDS CxxInt

CONSTANTS Thresh, RepsA, Ratios        \* scaled overflow threshold; the reps; the unit ratios <<n, d>>

Lcm(a, b) == (a * b) \div Gcd(a, b)
\* common unit of u1 = n1/d1 and u2 = n2/d2:  gcd(n1*d2, n2*d1) / (d1*d2); cofactors are integers
K1(u1, u2) == (u1[1] * u2[2]) \div Gcd(u1[1] * u2[2], u2[1] * u1[2])
K2(u1, u2) == (u2[1] * u1[2]) \div Gcd(u1[1] * u2[2], u2[1] * u1[2])
ImplicitOK(rs, rt, k) == (k = 1) \/ (Thresh * k <= MaxOf(rt))       \* integral reps, integer factor k (conversion_policy.hh)

VARIABLES r1, r2, u1, u2, v1, v2, pc, a, b, ovf
vars == <<r1, r2, u1, u2, v1, v2, pc, a, b, ovf>>
Rc == CommonType(r1, r2)
k1 == K1(u1, u2)
k2 == K2(u1, u2)

Init == /\ r1 \in RepsA /\ r2 \in RepsA /\ r1.s = r2.s                    \* equal signedness
        /\ u1 \in Ratios /\ u2 \in Ratios
        /\ v1 \in ValuesOf(r1) /\ v2 \in ValuesOf(r2)
        /\ pc = "start" /\ a = 0 /\ b = 0 /\ ovf = FALSE

\* comparison / + / - go through the common *type* <common unit, common rep>
Enabled3 == ImplicitOK(r1, Rc, k1) /\ ImplicitOK(r2, Rc, k2)
\* % and <=> convert each operand to the common unit in its OWN rep
EnabledOwn == ImplicitOK(r1, r1, k1) /\ ImplicitOK(r2, r2, k2)

Scale(r, v, k) == RawBin("*", r, v, r, k)           \* x * get_value<R>(k), formed in Promote(R), then narrowed to R
CastToCommon == /\ pc = "start" /\ Enabled3
                /\ LET x == Scale(Rc, Wrap(Rc, v1), k1)  y == Scale(Rc, Wrap(Rc, v2), k2) IN
                     /\ a' = Wrap(Rc, x.v) /\ b' = Wrap(Rc, y.v)
                     /\ ovf' = (~InRange(Rc, v1 * k1) \/ ~InRange(Rc, v2 * k2) \/ ~InRange(Rc, k1) \/ ~InRange(Rc, k2))
                /\ pc' = "common" /\ UNCHANGED <<r1, r2, u1, u2, v1, v2>>
Next == CastToCommon \/ (pc # "start" /\ UNCHANGED vars) \/ (pc = "start" /\ ~Enabled3 /\ UNCHANGED vars)
Spec == Init /\ [][Next]_vars

--------------------------------------------------------------------------------
(* exact rational order of value x unit: compare v1*k1 with v2*k2 *)
E1 == v1 * k1
E2 == v2 * k2
Cmp3(x, y) == IF x < y THEN -1 ELSE IF x > y THEN 1 ELSE 0
Ready == pc = "common" /\ ~ovf
(* the six comparisons as the library computes them: raw operators on the converted values in Rc *)
Lt == a < b   Le == a <= b   Gt == a > b   Ge == a >= b   Eq == a = b   Ne == a # b
ComparisonsExact == Ready => /\ Lt = (E1 < E2) /\ Le = (E1 <= E2) /\ Gt = (E1 > E2) /\ Ge = (E1 >= E2)
                             /\ Eq = (E1 = E2) /\ Ne = (E1 # E2)
ComparisonsConsistent == pc = "common" => /\ Le = (Lt \/ Eq) /\ Ge = (Gt \/ Eq) /\ Ne = ~Eq /\ ~(Lt /\ Gt)
                                          /\ (Lt \/ Gt \/ Eq)
Sum == RawBin("+", Rc, a, Rc, b)
Dif == RawBin("-", Rc, a, Rc, b)
SumExact == (Ready /\ InRange(Sum.rep, E1 + E2)) => (Sum.v = E1 + E2 /\ ~Sum.ub /\ ~Sum.wrapped)
DifExact == (Ready /\ InRange(Dif.rep, E1 - E2)) => (Dif.v = E1 - E2 /\ ~Dif.ub /\ ~Dif.wrapped)
(* % and <=>: operands scaled in their own reps *)
OwnA == Scale(r1, v1, k1)
OwnB == Scale(r2, v2, k2)
OwnReady == pc = "start" /\ EnabledOwn /\ InRange(r1, v1 * k1) /\ InRange(r2, v2 * k2) /\ InRange(r1, k1) /\ InRange(r2, k2)
Rem == RawBin("%", r1, Wrap(r1, OwnA.v), r2, Wrap(r2, OwnB.v))
RemExact == (OwnReady /\ E2 # 0) => (Rem.v = CMod(E1, E2) /\ ~Rem.ub)
\* built-in <=> on two integers of equal signedness after the usual arithmetic conversions
SpaceshipAgrees == OwnReady => Cmp3(Wrap(UAC(r1, r2), Wrap(r1, OwnA.v)), Wrap(UAC(r1, r2), Wrap(r2, OwnB.v))) = Cmp3(E1, E2)
(* the documented hole is exactly the overflow condition: if enabled and both scalings fit, nothing else can go wrong *)
NoUBWhenReady == Ready => (InRange(Rc, a) /\ InRange(Rc, b))
=============================================================================
