INIT Init
NEXT Next
