CONSTANTS Cat <- CatDef Pre <- PrefixDef
          Ids2 = {"Meters", "Feet", "Seconds", "Hertz", "Celsius", "Kelvins"}
INIT Init
NEXT Next
INVARIANT Emit
