---- MODULE Gen_DimGuard ----
(* C01: for every ordered pair of unit expressions the specification decides "same dimension" (equality of the          *)
(* denoted exponent maps).  Every operation that needs a common unit is an action of the type-state machine whose guard  *)
(* is SameDim /\ PolicyOK; a disabled action is a program that must be rejected.  Emitted: the guard's value per pair,    *)
(* also for the inversion operations (target unit vs. the inverse of the source unit).                                    *)
EXTENDS Units, Catalogue, Json, IOUtils
U(i) == [op |-> "unit", id |-> i]
Mul(a, b) == [op |-> "mul", l |-> a, r |-> b]
Div(a, b) == [op |-> "div", l |-> a, r |-> b]
PowE(a, n, d) == [op |-> "pow", x |-> a, r |-> <<n, d>>]
Sc(a, m) == [op |-> "scale", x |-> a, m |-> m]
Pf(p, a) == [op |-> "prefix", p |-> p, x |-> a]
Tier == IF "TIER" \in DOMAIN IOEnv THEN IOEnv.TIER ELSE "quick"
Core == { U("Meters"), U("Feet"), U("Seconds"), U("Minutes"), U("Hertz"), U("Grams"), U("Radians"), U("Degrees"), U("Kelvins"), U("Celsius"),
          U("Unos"), U("Percent"), U("Bits"), U("Newtons"), U("Joules"), U("Amperes"), U("Moles"), U("Candelas"),
          Mul(U("Meters"), U("Meters")), Div(U("Meters"), U("Seconds")), PowE(U("Meters"), 1, 2), PowE(U("Seconds"), -1, 1), PowE(U("Meters"), 3, 2), PowE(U("Seconds"), -1, 2), PowE(U("Feet"), 2, 3), PowE(U("Hertz"), 1, 2), PowE(U("Feet"), 1, 2), PowE(Pf("kilo", U("Hertz")), 1, 2),
          Sc(U("Feet"), <<BP(6, 1, 1)>>), Pf("kilo", U("Meters")), Div(U("Joules"), U("Newtons")), Mul(U("Hertz"), U("Seconds")),
          \* distinct anonymous compound units of one dimension AND one magnitude: operations between them are valid programs
          \* two anonymous scaled units of different dimensions
          Sc(U("Meters"), <<BP(6, 1, 1)>>), Sc(U("Seconds"), <<BP(10, 1, 1)>>), Sc(U("Seconds"), <<BP(4, -2, 1)>>),
          Mul(U("Newtons"), U("Meters")), Mul(U("Watts"), U("Seconds")), Mul(U("Meters"), U("Hertz")), Div(U("Coulombs"), U("Seconds")) }
BaseUnits == <<"Meters", "Grams", "Seconds", "Amperes", "Kelvins", "Moles", "Candelas", "Radians", "Bits">>
BaseQuot == {Div(U(BaseUnits[i]), U(BaseUnits[j])) : i, j \in 1..Len(BaseUnits)} \ {Div(U(BaseUnits[i]), U(BaseUnits[i])) : i \in 1..Len(BaseUnits)}
Exprs == IF Tier = "quick" THEN Core ELSE Core \cup {U(i) : i \in CatIds}
\* pairs supplied by the engine (inputs only: the verdict below is still TLC's): a quotient x / y of library units against the unit that
\* would have the same dimension if two of the base dimensions in it were one and the same
ExtraPairs == IF "EXTRA" \in DOMAIN IOEnv /\ IOEnv.EXTRA # "" THEN LET x == ndJsonDeserialize(IOEnv.EXTRA) IN {<<x[i].e1, x[i].e2>> : i \in 1..Len(x)} ELSE {}
VARIABLES e1, e2
Init == (e1 \in Exprs /\ e2 \in Exprs) \/ (e1 \in BaseQuot /\ e2 = U("Unos")) \/ (\E p \in ExtraPairs : e1 = p[1] /\ e2 = p[2])
Next == UNCHANGED <<e1, e2>>
SameDim(a, b) == DenDim(a) = DenDim(b)
Emit == PrintT(<<"CASE", ToJson([e1 |-> e1, e2 |-> e2, samedim |-> SameDim(e1, e2), inv_samedim |-> SameDim(e1, PowE(e2, -1, 1)), samemag |-> DenMag(e1) = DenMag(e2),
                                 dimless1 |-> DenDim(e1) = DenDim(Mul(U("Unos"), U("Unos")))])>>)
====
