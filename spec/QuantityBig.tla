----------------------------- MODULE QuantityBig -----------------------------
(* C08 on the real machine: mixed-unit comparison / + / - / % / <=> of integral quantities, over BigInt.              *)
(* A unit is a rational multiple N/D of the base unit; the common unit is the gcd; k1, k2 are the integer cofactors.  *)
EXTENDS PolicyBig
GcdB(x, y) == Gcd(x, y)
Cof1(n1, d1, n2, d2) == DivModT(Mul(n1, d2), GcdB(Mul(n1, d2), Mul(n2, d1)))[1]
Cof2(n1, d1, n2, d2) == DivModT(Mul(n2, d1), GcdB(Mul(n1, d2), Mul(n2, d1)))[1]
\* result rep of Rc + Rc (integral promotion of sub-int common reps)
PlusRep(r) == Promote(r)
Sgn3(x, y) == Cmp(x, y)
(* instance contract: cofactors, common rep, enabledness predicted by the C06 predicate (planning only) *)
MixedContract(r1, n1, d1, r2, n2, d2) ==
  LET c == CommonType(r1, r2)  k1 == Cof1(n1, d1, n2, d2)  k2 == Cof2(n1, d1, n2, d2) IN
  [k |-> "mixed", R1 |-> r1, R2 |-> r2, N1 |-> ToDec(n1), D1 |-> ToDec(d1), N2 |-> ToDec(n2), D2 |-> ToDec(d2),
   K1 |-> ToDec(k1), K2 |-> ToDec(k2), RC |-> c, lo |-> ToDec(MinOf(c)), hi |-> ToDec(MaxOf(c)),
   PR |-> PlusRep(c), plo |-> ToDec(MinOf(PlusRep(c))), phi |-> ToDec(MaxOf(PlusRep(c))),
   enabled |-> ImplicitOK(r1, c, "rat", k1, One) /\ ImplicitOK(r2, c, "rat", k2, One),
   own |-> ImplicitOK(r1, r1, "rat", k1, One) /\ ImplicitOK(r2, r2, "rat", k2, One) /\ InRange(r1, k1) /\ InRange(r2, k2),
   lo1 |-> ToDec(MinOf(r1)), hi1 |-> ToDec(MaxOf(r1)), lo2 |-> ToDec(MinOf(r2)), hi2 |-> ToDec(MaxOf(r2))]

(* record: {R1,R2,N1,D1,N2,D2 (wire), x,y (wire), lt,le,gt,ge,eq,ne (0/1), sum,dif (wire), hasmod, mod (wire), hasss, ss (-1/0/1), ub} *)
VerdictMixed(r) ==
  LET n1 == FromWire(r.N1) d1 == FromWire(r.D1) n2 == FromWire(r.N2) d2 == FromWire(r.D2)
      x == FromWire(r.x)  y == FromWire(r.y)
      k1 == Cof1(n1, d1, n2, d2)  k2 == Cof2(n1, d1, n2, d2)
      c == CommonType(r.R1, r.R2)
      e1 == Mul(x, k1)  e2 == Mul(y, k2)
      ready == InRange(c, e1) /\ InRange(c, e2) /\ InRange(c, k1) /\ InRange(c, k2)
      ord == Cmp(e1, e2)
      pr == PlusRep(c)
      ownready == InRange(r.R1, e1) /\ InRange(r.R2, e2) /\ InRange(r.R1, k1) /\ InRange(r.R2, k2)
  IN [ok |-> /\ ready => /\ (r.lt = 1) = (ord < 0) /\ (r.le = 1) = (ord <= 0) /\ (r.gt = 1) = (ord > 0)
                         /\ (r.ge = 1) = (ord >= 0) /\ (r.eq = 1) = (ord = 0) /\ (r.ne = 1) = (ord # 0)
             /\ (ready /\ InRange(pr, Add(e1, e2))) => FromWire(r.sum) = Add(e1, e2)
             /\ (ready /\ InRange(pr, Sub(e1, e2))) => FromWire(r.dif) = Sub(e1, e2)
             /\ (ready /\ InRange(pr, Add(e1, e2)) /\ InRange(pr, Sub(e1, e2))) => r.ub = 0
             /\ (r.hasmod = 1 /\ ownready /\ e2 # Zero) => FromWire(r.mod) = DivModT(e1, e2)[2]
             /\ (r.hasss = 1 /\ ownready) => r.ss = ord
             \* mutual consistency of the six answers, always
             /\ (r.le = 1) = (r.lt = 1 \/ r.eq = 1) /\ (r.ge = 1) = (r.gt = 1 \/ r.eq = 1) /\ (r.ne = 1) = (r.eq = 0)
             /\ ~(r.lt = 1 /\ r.gt = 1),
      ready |-> ready, ord |-> ord,
      cmp |-> (r.cready = 1) = ready]
=============================================================================
