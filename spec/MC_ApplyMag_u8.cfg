CONSTANTS IntBits = 8 TBits = 8 TSigned = FALSE MaxF = 140 RatTruncInPromoted = TRUE
SPECIFICATION Spec
INVARIANTS OvfExact TruncExact ClearedIsExact ClearedNoUB OvfMonotone NoFalseLossy
