INIT Init
NEXT Next
