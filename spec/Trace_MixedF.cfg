INIT Init
NEXT Next
