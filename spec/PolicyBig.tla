------------------------------ MODULE PolicyBig ------------------------------
(* C06 on the real machine: the documented implicit-conversion predicate over BigInt,          *)
(* the case grid (rep pairs x unit ratios straddling every rep's 2147-threshold and maximum,   *)
(* reciprocals, general rationals, pi, a factor no rep can hold), and the value contract.      *)
EXTENDS CastBig, FiniteSets

AllReps == IntReps \cup FloatReps
(* k = n/d in lowest terms (BigInt); kind "rat" | "irr" (irrational: never an integer) *)
ImplicitOK(r1, r2, kind, n, d) ==
  \/ IsFloatRep(r2)
  \/ ~IsFloatRep(r1) /\ kind = "rat" /\ d = One /\ Le(Mul(FromInt(2147), n), MaxOf(r2))
  \/ kind = "rat" /\ n = One /\ d = One /\ ~IsFloatRep(r1) /\ ~IsFloatRep(r2)

(* mixed-unit operations (==, +) convert both operands implicitly to <common unit, common rep>:     *)
(* for U1 = (n/d) U2 the common unit is U2/d, so the operands scale by n and by d respectively       *)
MixedOK(r1, r2, kind, n, d) ==
  kind = "rat" /\ LET c == CommonType(r1, r2) IN ImplicitOK(r1, c, "rat", n, One) /\ ImplicitOK(r2, c, "rat", d, One)

Thr(r) == DivModT(MaxOf(r), FromInt(2147))[1]
KInts == UNION { { Thr(r), Add(Thr(r), One), MaxOf(r), Add(MaxOf(r), One) } : r \in IntReps \ {"i8", "u8"} }
          \cup { FromInt(1), FromInt(2), FromInt(15), FromInt(16), FromInt(1000), FromInt(3072), BI("1000000"), BI("1000000000"), BI("1000000000000"), FromInt(127), FromInt(128), FromInt(255), FromInt(256) }
U64Max == MaxOf("u64")
P10_36 == Pow(FromInt(10), 36)
P10_305 == Pow(FromInt(10), 305)
Ks == { [kind |-> "rat", n |-> k, d |-> One] : k \in {j \in KInts : Le(j, U64Max) /\ j.s = 1} }
      \cup { [kind |-> "rat", n |-> One, d |-> k] : k \in { FromInt(2), FromInt(1000), BI("1000000"), Thr("i32"), MaxOf("i16") } }
      \cup { [kind |-> "rat", n |-> FromInt(3), d |-> FromInt(2)], [kind |-> "rat", n |-> FromInt(1001), d |-> FromInt(1000)],
             [kind |-> "rat", n |-> FromInt(1143), d |-> FromInt(1250)], [kind |-> "rat", n |-> FromInt(2), d |-> FromInt(3)] }
      \cup { [kind |-> "irr", n |-> FromInt(355), d |-> FromInt(113)],      \* pi (n/d only a label here)
             [kind |-> "rat", n |-> Pow2(70), d |-> One],                    \* 2^70: an integer no rep can hold
             \* huge and tiny ratios that only floating targets can take (km^3 -> nm^3 is 10^36; 2147 * 10^36 exceeds float's range)
             [kind |-> "rat", n |-> P10_36, d |-> One], [kind |-> "rat", n |-> One, d |-> P10_36], [kind |-> "rat", n |-> P10_305, d |-> One] }
\* the named special factors are recognised by their size (limb counts), so that the big powers are not recomputed for every case
KName(k) == IF k.kind = "irr" THEN "pi"
            ELSE IF Len(k.n.l) = 77 THEN "pow10_305" ELSE IF Len(k.n.l) = 10 /\ k.d = One THEN "pow10_36" ELSE IF Len(k.d.l) = 10 THEN "pow10_m36"
            ELSE IF Len(k.n.l) = 6 /\ k.d = One /\ ~Le(k.n, U64Max) THEN "pow2_70" ELSE "rat"
=============================================================================
