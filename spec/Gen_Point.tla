---- MODULE Gen_Point ----
EXTENDS PointBig
N == Len(PUnits)
VARIABLES a, b
Init == a \in 1..N /\ b \in 1..N
Next == UNCHANGED <<a, b>>
Emit == PrintT(<<"CASE", ToJson(PointContract(a, b))>>)
====
