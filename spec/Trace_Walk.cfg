SPECIFICATION Spec
POSTCONDITION Consumed
CHECK_DEADLOCK FALSE
