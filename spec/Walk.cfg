CONSTANT Depth = 6
SPECIFICATION Spec
INVARIANT WellFormed
INVARIANT EmitW
CHECK_DEADLOCK FALSE
