CONSTANTS IntBits = 6 WBits = 8 Primes = {2, 3, 5, 7, 11, 13, 127, 131, 251} MaxExp = 8 GuardBaseCast = FALSE
SPECIFICATION Spec
INVARIANTS RepresentableExactly ValueExact NoIntermediateOverflow
