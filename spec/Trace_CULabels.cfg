CONSTANTS Cat <- CatDef Pre <- PrefixDef LabelTab <- LabelDef PrefixSym <- PrefixSymDef
INIT Init
NEXT Next
