------------------------------- MODULE Labels -------------------------------
(***************************************************************************)
(* C18: the label grammar of unit_of_measure.hh / magnitude.hh / prefix.hh *)
(* as string-valued operators over the unit types of Units.tla.            *)
(*   named unit     -> its own label, or the unlabeled marker              *)
(*   Prefix<U>      -> prefix symbol ++ label(U)                            *)
(*   ScaledUnit     -> "[" ++ magnitude label ++ " " ++ label(U) ++ "]"    *)
(*   Pow / RatioPow -> label ^ exponent (parenthesised when negative or    *)
(*                     fractional)                                          *)
(*   UnitProduct    -> numerator and denominator groups joined by " * ",   *)
(*                     " / ", "1 / ", parentheses for multi-factor groups  *)
(* Magnitude labels: decimal digits of an integer, "N / D" (exposed slash, *)
(* parenthesised by the scaled-unit rule) of a rational, a fixed marker    *)
(* otherwise.  Integers are BigInt so that factors up to 2^64-1 print all  *)
(* their digits.                                                            *)
(***************************************************************************)
EXTENDS Units, BigInt
CONSTANT LabelTab, PrefixSym        \* unit id -> label string ("" = no own label); prefix id -> symbol

Unlabeled == "[UNLABELED UNIT]"
PrimeOfKey(k) == k \div 2
MagIsInt(m) == \A i \in 1..Len(m) : m[i].b # 7 /\ m[i].e[2] = 1 /\ m[i].e[1] > 0
MagIsRat(m) == \A i \in 1..Len(m) : m[i].b # 7 /\ m[i].e[2] = 1
RECURSIVE NumV(_,_), DenV(_,_)
NumV(m, i) == IF i > Len(m) THEN FromInt(1) ELSE Mul(IF m[i].e[1] > 0 THEN Pow(FromInt(PrimeOfKey(m[i].b)), m[i].e[1]) ELSE FromInt(1), NumV(m, i + 1))
DenV(m, i) == IF i > Len(m) THEN FromInt(1) ELSE Mul(IF m[i].e[1] < 0 THEN Pow(FromInt(PrimeOfKey(m[i].b)), -m[i].e[1]) ELSE FromInt(1), DenV(m, i + 1))
U64Max == Sub(Pow2(64), FromInt(1))
\* <<text, exposed slash>>.  categorize_mag_label: an integer that does not fit uintmax_t is UNSUPPORTED; a rational prints the
\* labels of its numerator and denominator (each an integer label, hence possibly the marker) joined by " / "
IntLabel(v) == IF Le(v, U64Max) THEN ToDec(v) ELSE "(UNLABELED SCALE FACTOR)"
MagLabel(m) == IF MagIsInt(m) THEN <<IntLabel(NumV(m, 1)), FALSE>>
               ELSE IF MagIsRat(m) THEN <<IntLabel(NumV(m, 1)) \o " / " \o IntLabel(DenV(m, 1)), TRUE>>
               ELSE <<"(UNLABELED SCALE FACTOR)", FALSE>>
Parens(b, s) == IF b THEN "(" \o s \o ")" ELSE s
ExpLabel(ex) == IF ex[2] = 1 THEN Parens(ex[1] < 0, ToString(ex[1])) ELSE "(" \o ToString(ex[1]) \o "/" \o ToString(ex[2]) \o ")"
RECURSIVE LabelOf(_), JoinBps(_,_)
BpLabel(bp) == IF bp.e = <<1, 1>> THEN LabelOf(bp.b) ELSE LabelOf(bp.b) \o "^" \o ExpLabel(bp.e)
JoinBps(bps, i) == IF i > Len(bps) THEN "" ELSE BpLabel(bps[i]) \o (IF i < Len(bps) THEN " * " ELSE "") \o JoinBps(bps, i + 1)
PosPart(bps) == SelectSeq(bps, LAMBDA bp : bp.e[1] > 0)
NegPartInv(bps) == LET neg == SelectSeq(bps, LAMBDA bp : bp.e[1] < 0) IN [i \in 1..Len(neg) |-> [b |-> neg[i].b, e |-> <<-neg[i].e[1], neg[i].e[2]>>]]
Compound(bps, omit) == Parens(~omit /\ Len(bps) > 1, JoinBps(bps, 1))
LabelOf(u) ==
  CASE u.k = "named" -> (IF LabelTab[u.id] = "" THEN Unlabeled ELSE LabelTab[u.id])
    [] u.k = "pref" -> PrefixSym[u.p] \o LabelOf(u.u)
    [] u.k = "scaled" -> LET ml == MagLabel(u.m) IN "[" \o Parens(ml[2], ml[1]) \o " " \o LabelOf(u.u) \o "]"
    [] u.k = "pow" -> LabelOf(u.u) \o "^" \o ExpLabel(u.e)
    [] u.k = "prod" -> LET n == PosPart(u.bps)  d == NegPartInv(u.bps) IN
                       IF n = <<>> /\ d = <<>> THEN ""
                       ELSE IF d = <<>> THEN Compound(n, TRUE)
                       ELSE IF n = <<>> THEN "1 / " \o Compound(d, FALSE)
                       ELSE Compound(n, FALSE) \o " / " \o Compound(d, FALSE)
=============================================================================
