---- MODULE Trace_Zero ----
EXTENDS ZeroOps
Obs == ndJsonDeserialize(IOEnv.TRACE)
Bad == {k \in 1..Len(Obs) : ~VerdictZero(Obs[k])}
ASSUME PrintT(<<"VALIDATED", ToJson([n |-> Len(Obs)])>>)
ASSUME \A k \in Bad : PrintT(<<"BADREC", ToJson([rec |-> Obs[k], expect_qz |-> Expect(SignOf(Obs[k]), FALSE), expect_zq |-> Expect(SignOf(Obs[k]), TRUE)])>>)
VARIABLE dummy
Init == dummy = 0
Next == UNCHANGED dummy
====
