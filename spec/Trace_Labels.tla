---- MODULE Trace_Labels ----
(* C18 trace validation: label bytes, sizeof and strlen read from the compiled unit types; decimal strings of IToA/UIToA;        *)
(* streamed quantities.                                                                                                             *)
EXTENDS Labels, Catalogue, Json, IOUtils
Obs == ndJsonDeserialize(IOEnv.TRACE)
Expected(r) == LabelOf(TypeNF(r.e))
OkRec(r) ==
  IF r.k = "label" THEN r.label = Expected(r) /\ r.size = Len(r.label) + 1 /\ r.len = Len(r.label) /\ r.nul = 1
  ELSE IF r.k = "itoa" THEN r.text = ToDec(FromWire(r.n)) /\ r.size = Len(r.text) + 1
  ELSE IF r.k = "stream" THEN r.text = ToDec(FromWire(r.value)) \o " " \o r.label
  ELSE FALSE
Bad == {k \in 1..Len(Obs) : ~OkRec(Obs[k])}
ASSUME PrintT(<<"VALIDATED", ToJson([n |-> Len(Obs)])>>)
ASSUME \A k \in Bad : PrintT(<<"BADREC", ToJson([rec |-> Obs[k], expected |-> IF Obs[k].k = "label" THEN Expected(Obs[k]) ELSE ""])>>)
VARIABLE dummy
Init == dummy = 0
Next == UNCHANGED dummy
====
