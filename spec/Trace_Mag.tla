---- MODULE Trace_Mag ----
EXTENDS MagBig
Obs == ndJsonDeserialize(IOEnv.TRACE)
V == [k \in 1..Len(Obs) |-> VerdictMag(Obs[k])]
Bad == {k \in 1..Len(Obs) : ~V[k].ok \/ ~ClassOK(Obs[k])}
ASSUME PrintT(<<"VALIDATED", ToJson([n |-> Len(Obs)])>>)
ASSUME \A k \in 1..Len(Obs) : PrintT(<<"WHY", ToJson([why |-> V[k].why])>>)
ASSUME \A k \in Bad : PrintT(<<"BADREC", ToJson([rec |-> Obs[k], v |-> V[k], cls |-> ClassOK(Obs[k])])>>)
VARIABLE dummy
Init == dummy = 0
Next == UNCHANGED dummy
====
