---- MODULE Trace_Cast ----
(* Batch trace validation of C05 records (harness/cast_sweep.hh) *)
EXTENDS CastBig
Obs == ndJsonDeserialize(IOEnv.TRACE)
OkRec(r) == IF r.k = "castii" THEN (LET v == VerdictII(r) IN v.ok /\ v.cmp) ELSE (VerdictF(r).ok /\ r.forms = 1)
Bad == {k \in 1..Len(Obs) : ~OkRec(Obs[k])}
Detail(r) == IF r.k = "castii" THEN ToJson([rec |-> r, v |-> VerdictII(r)]) ELSE ToJson([rec |-> r, v |-> VerdictF(r)])
ASSUME PrintT(<<"VALIDATED", ToJson([n |-> Len(Obs)])>>)
ASSUME \A k \in Bad : PrintT(<<"BADREC", Detail(Obs[k])>>)
VARIABLE dummy
Init == dummy = 0
Next == UNCHANGED dummy
====
