INIT Init
NEXT Next
