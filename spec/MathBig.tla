------------------------------- MODULE MathBig -------------------------------
(***************************************************************************)
(* C15: unit-aware math functions, over BigInt rationals with the pi       *)
(* enclosure of MagBig.tla.                                                 *)
(*  - rounding: r = floor_/ceil_/round_in(target, q) against the exact      *)
(*    value E = x * ratio (ratio read out as a prime-power pack, possibly   *)
(*    with pi), up to tau = |E| * 2^(5-p) (p = precision of the floating    *)
(*    type the std function works in)                                       *)
(*  - inversion: inverse_in(target, q) = trunc(K / x), K = 1/(mag(target) * *)
(*    mag(unit of q)) an integer; refused at compile time iff K < 10^6 for  *)
(*    integral reps                                                         *)
(*  - angle conversion feeding the trigonometric wrappers                   *)
(***************************************************************************)
EXTENDS MagBig
(* exact value of x (int wire or float record) as mant * 2^exp *)
XMant(r) == IF IsFloatRep(r.S) THEN SMant(r.x) ELSE FromWire(r.x)
XExp(r) == IF IsFloatRep(r.S) THEN FExp(r.x) ELSE 0
(* E = XMant * 2^XExp * num/den with num/den in [nl/dh, nh/dl] (enclosure of the ratio, L = 1)              *)
(* compare  E  with integer k + c/2 (c in {-2..2}) allowing slack tau: all comparisons on a common denominator *)
\* sign of (E_lo - q) and (E_hi - q) for rational q = qn/qd (qd > 0):  E_lo = XM*2^XE*nl/dh  (for XM >= 0; swapped when negative)
ELo(r, en) == IF XMant(r).s >= 0 THEN <<Mul(XMant(r), en.nl), en.dh>> ELSE <<Mul(XMant(r), en.nh), en.dl>>
EHi(r, en) == IF XMant(r).s >= 0 THEN <<Mul(XMant(r), en.nh), en.dl>> ELSE <<Mul(XMant(r), en.nl), en.dh>>
\* Cmp( a*2^e/b , qn/qd )
CmpQ(ab, e, qn, qd) == CmpS(Mul(ab[1], qd), e, Mul(qn, ab[2]), 0)
\* tau as a rational: |E_hi| * 2^(5-p) + 2^-40  -> we fold it by widening the bounds: E_lo - tau, E_hi + tau
\* lower(r,en,p) <= q  means  E_lo*(1 -+ 2^(5-p)) - 2^-40 <= q
Widen(ab, e, p, up) ==       \* multiply |value| by (1 +- 2^(5-p)) in the direction that widens the interval
  LET k == p - 5  pos == ab[1].s >= 0  grow == (up /\ pos) \/ (~up /\ ~pos)
  IN <<Mul(ab[1], IF grow THEN Add(P2(k), One) ELSE Sub(P2(k), One)), Mul(ab[2], P2(k))>>
Prec0(r) == IF IsFloatRep(r.S) THEN Prec(r.S) ELSE 53
Tiny == <<One, P2(40)>>
LeQ(ab, e, qn, qd) == CmpQ(ab, e, qn, qd) <= 0
LtQ(ab, e, qn, qd) == CmpQ(ab, e, qn, qd) < 0
\* q*2^40 +- 1 bookkeeping avoided: add the absolute slack by comparing against q +- 2^-40
VerdictRound(r) ==
  LET en == Encl(r.mag, 1, 1)
      lo == Widen(ELo(r, en), XExp(r), Prec0(r), FALSE)   hi == Widen(EHi(r, en), XExp(r), Prec0(r), TRUE)
      e == XExp(r)
      isint == r.res.cls = "zero" \/ (r.res.cls = "fin" /\ IsIntegralF(r.res))
      k == IF r.res.cls = "zero" THEN Zero ELSE TruncVal(r.res)
      \* k and k+1, k-1 with absolute slack 2^-40:  (k*2^40 +- 1) / 2^40
      kq(c, s) == Add(Mul(Add(Mul(k, FromInt(2)), FromInt(c)), P2(39)), FromInt(s))      \* (k + c/2) * 2^40 + s
      D40 == P2(40)
  IN IF r.res.cls \notin {"fin", "zero"} \/ HugeF(r.res) THEN [ok |-> ~IsFin(r.x), why |-> "nonfinite"]
     ELSE [ok |-> /\ isint
                  /\ CASE r.fn = "floor" -> CmpQ(lo, e, kq(2, 1), D40) < 0 /\ CmpQ(hi, e, kq(0, -1), D40) >= 0       \* E-tau < k+1  and  k <= E+tau
                       [] r.fn = "ceil"  -> CmpQ(hi, e, kq(-2, -1), D40) > 0 /\ CmpQ(lo, e, kq(0, 1), D40) <= 0      \* k-1 < E+tau  and  E-tau <= k
                       [] r.fn = "round" -> CmpQ(hi, e, kq(-1, -1), D40) >= 0 /\ CmpQ(lo, e, kq(1, 1), D40) <= 0,    \* k-1/2 <= E+tau and E-tau <= k+1/2
           why |-> r.fn]
(* inversion: {R, mag (pack of mag(target)*mag(unit), rational), x (wire), res (wire)} *)
VerdictInverse(r) ==
  LET en == Encl(r.mag, 1, 1)  x == FromWire(r.x)
      kint == DivModT(en.dl, en.nl)          \* K = den/num of (mag(target)*mag(unit))
  IN [ok |-> (kint[2] = Zero /\ x # Zero) => FromWire(r.res) = DivModT(kint[1], x)[1], K |-> ToDec(kint[1]), kexact |-> kint[2] = Zero]
(* angle conversion: {S, x, mag (ratio to radians, with pi), y (float in radians)}: y within 2^(5-p) of x*ratio *)
VerdictAngle(r) ==
  LET en == Encl(r.mag, 1, 1)  p == Prec(r.P)
      lo == Widen(ELo(r, en), XExp(r), p, FALSE)   hi == Widen(EHi(r, en), XExp(r), p, TRUE)
      ym == SMant(r.y)
  IN [ok |-> IF XMant(r).s = 0 THEN r.y.cls = "zero"
             ELSE r.y.cls = "fin" /\ CmpS(Mul(lo[1], One), XExp(r), Mul(ym, lo[2]), FExp(r.y)) <= 0 /\ CmpS(Mul(hi[1], One), XExp(r), Mul(ym, hi[2]), FExp(r.y)) >= 0]
=============================================================================
