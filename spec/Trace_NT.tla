---- MODULE Trace_NT ----
EXTENDS NTBig
Obs == ndJsonDeserialize(IOEnv.TRACE)
Bad == {k \in 1..Len(Obs) : ~VerdictNT(Obs[k])}
ASSUME PrintT(<<"VALIDATED", ToJson([n |-> Len(Obs)])>>)
ASSUME \A k \in Bad : PrintT(<<"BADREC", ToJson([rec |-> Obs[k]])>>)
VARIABLE dummy
Init == dummy = 0
Next == UNCHANGED dummy
====
