CONSTANTS IntBits = 6 Thresh = 5 MaxK = 60 TotalGetValue = FALSE
SPECIFICATION Spec
INVARIANTS Total AsDocumented NoOverflowBelowThreshold
