---------------------------- MODULE MC_CommonUnit ----------------------------
(* Layer A for C07: all lists of length 2..MaxLen (with repetition) over a same-dimension family, in every order *)
EXTENDS CommonUnit, Catalogue, FiniteSetsExt, SequencesExt
CONSTANTS MaxLen
N(i) == [k |-> "named", id |-> i]
Sc(u, m) == UScale(u, m)
Family == << N("Meters"), N("Feet"), N("Inches"), N("Yards"),
             [k |-> "pref", p |-> "kilo", u |-> N("Meters")], [k |-> "pref", p |-> "milli", u |-> N("Meters")],
             Sc(N("Meters"), <<BP(4, -7, 1), BP(6, 1, 1)>>),          \* 3/128 m, anonymous
             Sc(N("Feet"), <<BP(6, -1, 1)>>),                         \* ft/3, anonymous, quantity-equivalent to 4 in
             Sc(N("Inches"), <<BP(4, 2, 1)>>),                        \* 4 in
             Sc(N("Meters"), <<BP(7, 1, 1)>>),                        \* pi m (irrational ratio)
             Sc(N("Meters"), <<BP(6, 1, 1), BP(7, 1, 1), BP(14, -1, 1)>>),   \* (3 pi / 7) m: rational, non-integer ratio to pi m
             Sc(N("Inches"), <<BP(4, 1, 2)>>) >>                      \* sqrt(2) in
VARIABLES us, perm
Lists == UNION { [1..n -> 1..Len(Family)] : n \in 2..MaxLen }
Init == \E f \in Lists : us = [i \in DOMAIN f |-> Family[f[i]]] /\ perm = us
Permute == \E p \in Permutations(1..Len(us)) : perm' = [i \in 1..Len(us) |-> us[p[i]]] /\ UNCHANGED us
Repeat == Len(perm) <= MaxLen /\ \E i \in 1..Len(us) : perm' = Append(us, us[i]) /\ UNCHANGED us
Next == Permute \/ Repeat
Spec == Init /\ [][Next]_<<us, perm>>

Ok == ~AnyBroken(us)
C == CommonAlgo(us)
GcdMagnitude == Ok => MapOf(MagOf(C)) = MinMap(us)
SameDim == Ok => DimOf(C) = DimOf(us[1])
IntegerCofactors == (Ok /\ RationalRatios(us)) => \A i \in 1..Len(us) : IsIntegerMag(Ratio(us[i], C))
JointlyCoprime == (Ok /\ RationalRatios(us)) =>
                    \A b \in UNION {DOMAIN MapOf(Ratio(us[i], C)) : i \in 1..Len(us)} :
                       \E i \in 1..Len(us) : b \notin DOMAIN MapOf(Ratio(us[i], C))
IsAnInputWhenPossible == (Ok /\ \E i \in 1..Len(us) : QEquiv(us[i], C)) => \E i \in 1..Len(us) : C = us[i]
Symmetric == Ok => CommonAlgo(perm) = C
Nesting == (Ok /\ Len(us) = 3) => QEquiv(CommonAlgo(<<us[1], CommonAlgo(<<us[2], us[3]>>)>>), C)
=============================================================================
