CONSTANTS IntBits = 6 FixedUpperBound = TRUE
SPECIFICATION Spec
INVARIANTS ClearedDefined ClearedExact ClearedFloatToInt UncastableIsLossy IntOvfOnlyIfReal
