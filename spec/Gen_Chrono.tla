---- MODULE Gen_Chrono ----
(* C17: a std::chrono::duration<Rep, Period> is the quantity <seconds x Period, Rep, count>.  Instances: duration types x quantity     *)
(* types of time units; the mixed-operation contract is C08's (QuantityBig), the implicit-acceptance verdict is C06's predicate on      *)
(* the ratio Period / unit.                                                                                                              *)
EXTENDS QuantityBig
Tier == IF "TIER" \in DOMAIN IOEnv THEN IOEnv.TIER ELSE "quick"
Periods == { <<"1","1000000000">>, <<"1","1000000">>, <<"1","1000">>, <<"1","1">>, <<"60","1">>, <<"3600","1">>, <<"1","60">>, <<"1001","30000">>, <<"86400","1">>, <<"1","3">> }
Units2 == { <<"1","1">>, <<"1","1000">>, <<"60","1">>, <<"1","1000000">>, <<"1","3">>, <<"3600","1">> }
RepPairs == { <<"i32","i32">>, <<"i64","i64">>, <<"i32","i64">>, <<"i64","i32">> } \cup (IF Tier = "quick" THEN {} ELSE { <<"i16","i64">>, <<"i64","i16">>, <<"u32","u64">> })
FloatPairs == { <<"f64","f64">>, <<"f32","f64">>, <<"i64","f64">>, <<"f64","i64">>, <<"f32","i32">>, <<"i32","f32">> }
VARIABLES rp, p, u
Init == rp \in RepPairs \cup FloatPairs /\ p \in Periods /\ u \in Units2
Next == UNCHANGED <<rp, p, u>>
Ratio == LET n == Mul(BI(p[1]), BI(u[2]))  d == Mul(BI(p[2]), BI(u[1]))  g == Gcd(n, d) IN <<DivModT(n, g)[1], DivModT(d, g)[1]>>
Accept == ImplicitOK(rp[1], rp[2], "rat", Ratio[1], Ratio[2])
Emit == PrintT(<<"CASE", ToJson(IF rp \in RepPairs
                                THEN MixedContract(rp[1], BI(p[1]), BI(p[2]), rp[2], BI(u[1]), BI(u[2])) @@ [accept |-> Accept, ints |-> TRUE]
                                ELSE [R1 |-> rp[1], R2 |-> rp[2], N1 |-> p[1], D1 |-> p[2], N2 |-> u[1], D2 |-> u[2], accept |-> Accept, ints |-> FALSE, enabled |-> FALSE])>>)
====
