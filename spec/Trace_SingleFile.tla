---- MODULE Trace_SingleFile ----
(* runs of the real make-single-file functions (parse_files, sort_topologically) on include graphs with string file names: *)
(* property-level judgement -- files = exactly the project-include closure of the selection, ready is a permutation of it   *)
(* in which every file follows all of its includes.                                                                         *)
EXTENDS Integers, Sequences, FiniteSets, TLC, Json, IOUtils
Obs == ndJsonDeserialize(IOEnv.TRACE)
SetOf(s) == {s[i] : i \in 1..Len(s)}
Deps(r, f) == LET i == CHOOSE i \in 1..Len(r.graph) : r.graph[i].f = f IN SetOf(r.graph[i].deps)
Known(r) == {r.graph[i].f : i \in 1..Len(r.graph)}
RECURSIVE Reach(_,_,_)
Reach(r, S, k) == IF k = 0 THEN S ELSE LET T == S \cup UNION {Deps(r, f) : f \in S \cap Known(r)} IN IF T = S THEN S ELSE Reach(r, T, k - 1)
Pos(s, x) == CHOOSE i \in 1..Len(s) : s[i] = x
OkRec(r) == LET cl == Reach(r, SetOf(r.sel), Len(r.graph) + 1) IN
  /\ SetOf(r.files) = cl
  /\ SetOf(r.ready) = cl /\ Len(r.ready) = Cardinality(cl)
  /\ \A f \in cl : \A h \in Deps(r, f) : Pos(r.ready, h) < Pos(r.ready, f)
Bad == {k \in 1..Len(Obs) : ~OkRec(Obs[k])}
ASSUME PrintT(<<"VALIDATED", ToJson([n |-> Len(Obs)])>>)
ASSUME \A k \in Bad : PrintT(<<"BADREC", ToJson([id |-> Obs[k].id])>>)
VARIABLE dummy
Init == dummy = 0
Next == UNCHANGED dummy
====
