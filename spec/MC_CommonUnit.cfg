CONSTANTS Cat <- CatDef Pre <- PrefixDef MaxLen = 3
SPECIFICATION Spec
INVARIANTS GcdMagnitude SameDim IntegerCofactors JointlyCoprime IsAnInputWhenPossible Symmetric Nesting
