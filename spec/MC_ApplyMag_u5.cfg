CONSTANTS IntBits = 8 TBits = 5 TSigned = FALSE MaxF = 140 RatTruncInPromoted = TRUE
SPECIFICATION Spec
INVARIANTS OvfExact TruncExact ClearedIsExact ClearedNoUB OvfMonotone NoFalseLossy
