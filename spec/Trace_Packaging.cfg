INIT Init
NEXT Next
