--------------------------------- MODULE Walk ---------------------------------
(* The generator machine over WalkOps: random walks (TLC -simulate) through the type-state machine of a quantity; only  *)
(* defined steps are taken; the history variable is the walk, printed once the walk has Depth steps.                    *)
EXTENDS WalkOps
CONSTANT Depth
VARIABLES st, hist
vars == <<st, hist>>
Ev(a, args, s) == [a |-> a, args |-> args, pred |-> [rep |-> s.rep, n |-> ToDec(s.n), d |-> ToDec(s.d), v |-> ToDec(s.v)]]
Init == st = NoneSt /\ hist = <<>>
\* parameters are drawn with TLC's RandomElement (seeded by -seed), so that a simulation step has a handful of successors, not thousands
SmallVals == {BI(x) : x \in {"0", "1", "2", "3", "5", "7", "12", "36", "100", "127", "-1", "-2", "-5", "-12", "-100", "-128"}}
PickVal == IF RandomElement(1..3) = 1 THEN RandomElement(SignedVals) ELSE RandomElement(SmallVals)

\* (bound with \E over a singleton: a LET would re-evaluate RandomElement at every occurrence)
Make == /\ st.rep = "none"
        /\ \E rep \in {RandomElement(RepsW)}, ui \in {RandomElement(1..Len(UnitsW))}, v \in {PickVal} :
             /\ InRange(rep, v)
             /\ st' = DoMake(rep, ui, v)
             /\ hist' = <<Ev("Make", [rep |-> rep, unit |-> UnitsW[ui][1], v |-> ToDec(v)], st')>>
Step == /\ st.rep # "none" /\ Len(hist) < Depth
        /\ \/ \E ui \in {RandomElement(1..Len(UnitsW))} : AsOK(st, ui) /\ st' = DoAs(st, ui) /\ hist' = Append(hist, Ev("As", [unit |-> UnitsW[ui][1]], st'))
           \/ \E ui \in {RandomElement(1..Len(UnitsW))} : CoerceOK(st, ui) /\ st' = DoAs(st, ui) /\ hist' = Append(hist, Ev("CoerceAs", [unit |-> UnitsW[ui][1]], st'))
           \/ \E r2 \in {RandomElement(RepsW)} : InRange(r2, st.v) /\ r2 # st.rep /\ st' = DoCast(st, r2) /\ hist' = Append(hist, Ev("RepCast", [rep |-> r2], st'))
           \/ \E r2 \in {RandomElement({x \in RepsW : Signed(x) = Signed(st.rep)})}, ui \in {RandomElement(1..Len(UnitsW))}, w \in {PickVal}, sg \in {RandomElement({1, -1})} :
                LET x == DoAdd(st, r2, ui, w, sg) IN
                /\ InRange(r2, w) /\ x.ok
                /\ st' = x.st
                /\ hist' = Append(hist, Ev(IF sg > 0 THEN "AddLit" ELSE "SubLit", [rep |-> r2, unit |-> UnitsW[ui][1], v |-> ToDec(w)], st'))
           \/ \E r2 \in {RandomElement({x \in RepsW : Signed(x) = Signed(st.rep)})}, ui \in {RandomElement(1..Len(UnitsW))}, w \in {PickVal} :
                /\ InRange(r2, w) /\ DoCmp(st, r2, ui, w).ok
                /\ st' = st
                /\ hist' = Append(hist, Ev("CmpLit", [rep |-> r2, unit |-> UnitsW[ui][1], v |-> ToDec(w), ord |-> DoCmp(st, r2, ui, w).ord], st'))
           \/ \E r2 \in {RandomElement({x \in RepsW : Signed(x) = Signed(st.rep)})}, ui \in {RandomElement(1..Len(UnitsW))}, w \in {PickVal} :
                /\ InRange(r2, w) /\ DoMod(st, r2, ui, w).ok
                /\ st' = DoMod(st, r2, ui, w).st
                /\ hist' = Append(hist, Ev("ModLit", [rep |-> r2, unit |-> UnitsW[ui][1], v |-> ToDec(w)], st'))
           \/ \E k \in {RandomElement(KsW)} : DoDivInt(st, k).ok /\ st' = DoDivInt(st, k).st /\ hist' = Append(hist, Ev("DivInt", [k |-> k], st'))
           \/ \E k \in {RandomElement(KsW)} : DoMul(st, k).ok /\ st' = DoMul(st, k).st /\ hist' = Append(hist, Ev("MulInt", [k |-> k], st'))
           \/ DoNeg(st).ok /\ st' = DoNeg(st).st /\ hist' = Append(hist, Ev("Neg", [x |-> 0], st'))
Next == Make \/ Step
Spec == Init /\ [][Next]_vars
(* every reachable state is well formed: the value fits the rep, the unit is in lowest terms and positive *)
WellFormed == st.rep # "none" => (InRange(st.rep, st.v) /\ Gcd(st.n, st.d) = One /\ st.n.s = 1 /\ st.d.s = 1)
EmitW == Len(hist) < 3 \/ PrintT(<<"CASE", ToJson([steps |-> hist])>>)
=============================================================================
