------------------------------- MODULE WalkOps -------------------------------
(***************************************************************************)
(* Beyond the single-operation properties: the type-state machine of a     *)
(* quantity that a user chains operations on.  One length-like dimension,  *)
(* integral reps, the real machine (BigInt).                               *)
(*                                                                         *)
(* State: the static type (rep, unit = n/d metres in lowest terms) and the *)
(* stored value v of the current expression.  Actions are the public       *)
(* operations, each with the guard under which the program compiles and    *)
(* the effect the single-operation specifications assign:                  *)
(*   Make      unit(R{v})                                                  *)
(*   As        q.as(u)            guard: implicit-conversion policy (C06)  *)
(*   CoerceAs  q.coerce_as(u)     effect: trunc(v * N / D) (C03/C04)       *)
(*   RepCast   rep_cast<R2>(q)                                             *)
(*   AddLit    q + u2(R2{w}), SubLit   common unit, promoted common rep    *)
(*                                (C07, C08)                               *)
(*   MulInt    q * k              raw operator's type (C13)                *)
(*   CmpLit    q <, ==, > u2(R2{w})   exact order (C08), state unchanged    *)
(*   ModLit    q % u2(R2{w})      remainder in the common unit (C08)       *)
(*   DivInt    q / k              raw truncating quotient (C13)            *)
(*   Neg       -q                                                          *)
(* Only steps whose result is defined (no overflow at any stage the        *)
(* single-operation specifications name) are taken, so a generated walk    *)
(* is a program without undefined behaviour and every intermediate type    *)
(* and value is determined.  The history variable carries the walk for the *)
(* generator; Trace_Walk.tla replays recorded executions step by step.     *)
(***************************************************************************)
EXTENDS QuantityBig

UnitsW == << <<"Meters", BI("1"), BI("1")>>, <<"Milli<Meters>", BI("1"), BI("1000")>>, <<"Kilo<Meters>", BI("1000"), BI("1")>>,
             <<"Centi<Meters>", BI("1"), BI("100")>>, <<"Inches", BI("127"), BI("5000")>>, <<"Feet", BI("381"), BI("1250")>>,
             <<"Yards", BI("1143"), BI("1250")>>, <<"Miles", BI("201168"), BI("125")>> >>
RepsW == {"i8", "u8", "i16", "u16", "i32", "u32", "i64", "u64"}
ValsW == {BI(s) : s \in {"0", "1", "2", "3", "5", "7", "12", "36", "100", "127", "128", "255", "1000", "5280", "32767", "65535", "100000", "1000000",
                         "2147483", "2147483647", "4294967295", "1000000000000", "9223372036854775807"}}
SignedVals == ValsW \cup {Neg(x) : x \in ValsW} \cup {BI("-128"), BI("-32768"), BI("-2147483648")}
KsW == {2, 3, 10, -1, -3, 1000}

Red(n, d) == LET g == Gcd(n, d) IN <<DivModT(n, g)[1], DivModT(d, g)[1]>>
\* factor from unit n/d to unit un/ud
Fac(n, d, un, ud) == Red(Mul(n, ud), Mul(d, un))
\* common unit of n1/d1 and n2/d2: gcd(n1*d2, n2*d1) / (d1*d2)
Cu(n1, d1, n2, d2) == Red(Gcd(Mul(n1, d2), Mul(n2, d1)), Mul(d1, d2))

Implicit(r, fn, fd) == fd = One /\ (fn = One \/ Le(Mul(FromInt(2147), fn), MaxOf(r)))
(* effects: each returns the next state or "none" *)
St(rep, n, d, v) == [rep |-> rep, n |-> n, d |-> d, v |-> v]
NoneSt == St("none", Zero, One, Zero)
DoMake(rep, ui, v) == St(rep, UnitsW[ui][2], UnitsW[ui][3], v)
DoAs(s, ui) == LET f == Fac(s.n, s.d, UnitsW[ui][2], UnitsW[ui][3]) IN St(s.rep, UnitsW[ui][2], UnitsW[ui][3], ExactValue(s.v, f[1], f[2]))
AsOK(s, ui) == LET f == Fac(s.n, s.d, UnitsW[ui][2], UnitsW[ui][3]) IN
  Implicit(s.rep, f[1], f[2]) /\ PredCompiles(s.rep, f[1], f[2]) /\ ~ExactOvf(s.rep, s.v, f[1], f[2])
CoerceOK(s, ui) == LET f == Fac(s.n, s.d, UnitsW[ui][2], UnitsW[ui][3]) IN PredCompiles(s.rep, f[1], f[2]) /\ ~ExactOvf(s.rep, s.v, f[1], f[2])
DoCast(s, r2) == St(r2, s.n, s.d, s.v)
DoAdd(s, r2, ui, w, sign) ==
  LET n2 == UnitsW[ui][2]  d2 == UnitsW[ui][3]
      c == CommonType(s.rep, r2)
      k1 == Cof1(s.n, s.d, n2, d2)  k2 == Cof2(s.n, s.d, n2, d2)
      cu == Cu(s.n, s.d, n2, d2)
      e1 == Mul(s.v, k1)  e2 == Mul(w, k2)
      res == IF sign > 0 THEN Add(e1, e2) ELSE Sub(e1, e2)
  IN [ok |-> /\ Signed(s.rep) = Signed(r2)
             /\ ImplicitOK(s.rep, c, "rat", k1, One) /\ ImplicitOK(r2, c, "rat", k2, One)
             /\ InRange(c, e1) /\ InRange(c, e2) /\ InRange(c, k1) /\ InRange(c, k2) /\ InRange(PlusRep(c), res),
      st |-> St(PlusRep(c), cu[1], cu[2], res)]
\* q <=> literal: both operands go to <common unit, common rep>; the state does not change, the answer is observed
DoCmp(s, r2, ui, w) ==
  LET n2 == UnitsW[ui][2]  d2 == UnitsW[ui][3]
      c == CommonType(s.rep, r2)
      k1 == Cof1(s.n, s.d, n2, d2)  k2 == Cof2(s.n, s.d, n2, d2)
      e1 == Mul(s.v, k1)  e2 == Mul(w, k2)
  IN [ok |-> /\ Signed(s.rep) = Signed(r2)
             /\ ImplicitOK(s.rep, c, "rat", k1, One) /\ ImplicitOK(r2, c, "rat", k2, One)
             /\ InRange(c, e1) /\ InRange(c, e2) /\ InRange(c, k1) /\ InRange(c, k2),
      ord |-> Cmp(e1, e2)]
\* q % literal: each operand is brought to the common unit in its OWN rep, then the raw % (sign of the dividend); unit = common unit
DoMod(s, r2, ui, w) ==
  LET n2 == UnitsW[ui][2]  d2 == UnitsW[ui][3]
      k1 == Cof1(s.n, s.d, n2, d2)  k2 == Cof2(s.n, s.d, n2, d2)
      cu == Cu(s.n, s.d, n2, d2)
      e1 == Mul(s.v, k1)  e2 == Mul(w, k2)
      rr == PlusRep(CommonType(s.rep, r2))
  IN [ok |-> /\ Signed(s.rep) = Signed(r2)
             /\ ImplicitOK(s.rep, s.rep, "rat", k1, One) /\ ImplicitOK(r2, r2, "rat", k2, One)
             /\ InRange(s.rep, e1) /\ InRange(r2, e2) /\ InRange(s.rep, k1) /\ InRange(r2, k2)
             /\ e2 # Zero /\ e2 # Neg(One),
      st |-> St(rr, cu[1], cu[2], IF e2 = Zero THEN Zero ELSE DivModT(e1, e2)[2])]
\* q / k for an integer k: the raw operator (truncating), in the raw operator's type
DoDivInt(s, k) == LET rr == CommonType(s.rep, "i32")  res == DivModT(s.v, FromInt(k))[1] IN
  [ok |-> k # 0 /\ InRange(rr, res) /\ InRange(rr, s.v) /\ (Signed(rr) \/ k > 0), st |-> St(rr, s.n, s.d, res)]
DoMul(s, k) == LET rr == CommonType(s.rep, "i32")  res == Mul(s.v, FromInt(k)) IN
  [ok |-> InRange(rr, res) /\ InRange(rr, s.v) /\ (Signed(rr) \/ k > 0), st |-> St(rr, s.n, s.d, res)]
DoNeg(s) == [ok |-> InRange(Promote(s.rep), Neg(s.v)), st |-> St(Promote(s.rep), s.n, s.d, Neg(s.v))]
=============================================================================
