------------------------------- MODULE BigInt -------------------------------
(***************************************************************************)
(* Arbitrary-precision integers in pure TLA+.                              *)
(* A value is [s |-> -1|0|1, l |-> limbs], limbs little-endian in base B,  *)
(* no trailing zero limb; zero is [s |-> 0, l |-> <<>>].                    *)
(* TLC integers are 32-bit and trap on overflow: B = 10^4 keeps every      *)
(* intermediate (B*B + carries) below 2^31.                                *)
(***************************************************************************)
EXTENDS Integers, Sequences, TLC

B == 10000

Zero == [s |-> 0, l |-> <<>>]

(* ---- natural-number limb sequences ---- *)
RECURSIVE NTrim(_)
NTrim(x) == IF x = <<>> THEN x ELSE IF x[Len(x)] = 0 THEN NTrim(SubSeq(x, 1, Len(x)-1)) ELSE x

RECURSIVE NFromInt(_)
NFromInt(n) == IF n = 0 THEN <<>> ELSE <<n % B>> \o NFromInt(n \div B)

Dg(x, i) == IF i <= Len(x) THEN x[i] ELSE 0
MaxLen(x, y) == IF Len(x) > Len(y) THEN Len(x) ELSE Len(y)

RECURSIVE NAddC(_,_,_,_)
NAddC(x, y, i, c) ==
  IF i > Len(x) /\ i > Len(y) THEN (IF c = 0 THEN <<>> ELSE <<c>>)
  ELSE LET t == Dg(x,i) + Dg(y,i) + c IN <<t % B>> \o NAddC(x, y, i+1, t \div B)
NAdd(x0, y0) == LET x == TLCEval(x0) y == TLCEval(y0) IN NAddC(x, y, 1, 0)

RECURSIVE NCmpR(_,_,_)
NCmpR(x, y, i) == IF i = 0 THEN 0 ELSE IF x[i] < y[i] THEN -1 ELSE IF x[i] > y[i] THEN 1 ELSE NCmpR(x, y, i-1)
NCmp(x0, y0) == LET x == TLCEval(x0) y == TLCEval(y0) IN IF Len(x) < Len(y) THEN -1 ELSE IF Len(x) > Len(y) THEN 1 ELSE NCmpR(x, y, Len(x))

(* x - y for x >= y *)
RECURSIVE NSubC(_,_,_,_)
NSubC(x, y, i, brw) ==
  IF i > Len(x) THEN <<>>
  ELSE LET t == x[i] - Dg(y,i) - brw IN
       IF t < 0 THEN <<t + B>> \o NSubC(x, y, i+1, 1) ELSE <<t>> \o NSubC(x, y, i+1, 0)
NSub(x0, y0) == LET x == TLCEval(x0) y == TLCEval(y0) IN NTrim(NSubC(x, y, 1, 0))

RECURSIVE NMulDC(_,_,_,_)
NMulDC(x, d, i, c) ==
  IF i > Len(x) THEN (IF c = 0 THEN <<>> ELSE <<c>>)
  ELSE LET t == x[i] * d + c IN <<t % B>> \o NMulDC(x, d, i+1, t \div B)
NMulD(x0, d) == LET x == TLCEval(x0) IN IF d = 0 THEN <<>> ELSE NMulDC(x, d, 1, 0)

RECURSIVE NMulR(_,_,_)
NMulR(x, y, j) == IF j > Len(y) THEN <<>> ELSE NAdd(NMulD(x, y[j]), (IF j < Len(y) THEN <<0>> \o NMulR(x, y, j+1) ELSE <<>>))
NMul(x0, y0) == LET x == TLCEval(x0) y == TLCEval(y0) IN IF x = <<>> \/ y = <<>> THEN <<>> ELSE NTrim(NMulR(x, y, 1))

(* division of naturals: schoolbook, quotient digit by binary search *)
RECURSIVE QDigit(_,_,_,_)
QDigit(r, y, lo, hi) ==   \* largest q in lo..hi with q*y <= r
  IF lo = hi THEN lo
  ELSE LET mid == (lo + hi + 1) \div 2 IN
       IF NCmp(NMulD(y, mid), r) <= 0 THEN QDigit(r, y, mid, hi) ELSE QDigit(r, y, lo, mid - 1)

RECURSIVE NDivR(_,_,_,_,_)
NDivR(x, y, i, r, q) ==   \* process limbs of x from most significant (index i) down
  IF i = 0 THEN <<NTrim(q), r>>
  ELSE LET r1 == NTrim(<<x[i]>> \o r)
           d  == IF NCmp(r1, y) < 0 THEN 0 ELSE QDigit(r1, y, 1, B-1)
           r2 == IF d = 0 THEN r1 ELSE NSub(r1, NMulD(y, d))
       IN NDivR(x, y, i-1, TLCEval(r2), TLCEval(<<d>> \o q))
NDivMod(x0, y0) == LET x == TLCEval(x0) y == TLCEval(y0) IN NDivR(x, y, Len(x), <<>>, <<>>)     \* <<quotient, remainder>>, y # <<>>

(* ---- signed integers ---- *)
Mk(s, l) == IF l = <<>> THEN Zero ELSE [s |-> s, l |-> l]
FromInt(i) == IF i = 0 THEN Zero ELSE IF i > 0 THEN [s |-> 1, l |-> NFromInt(i)] ELSE [s |-> -1, l |-> NFromInt(-i)]
Neg(a) == [s |-> -a.s, l |-> a.l]
BAbs(a) == [s |-> (IF a.s = 0 THEN 0 ELSE 1), l |-> a.l]
Cmp(a, b) == IF a.s # b.s THEN (IF a.s < b.s THEN -1 ELSE 1)
             ELSE IF a.s = 0 THEN 0 ELSE a.s * NCmp(a.l, b.l)
Lt(a, b) == Cmp(a, b) < 0
Le(a, b) == Cmp(a, b) <= 0
Eq(a, b) == a = b
Add(a, b) ==
  IF a.s = 0 THEN b ELSE IF b.s = 0 THEN a
  ELSE IF a.s = b.s THEN [s |-> a.s, l |-> NAdd(a.l, b.l)]
  ELSE LET c == NCmp(a.l, b.l) IN
       IF c = 0 THEN Zero ELSE IF c > 0 THEN Mk(a.s, NSub(a.l, b.l)) ELSE Mk(b.s, NSub(b.l, a.l))
Sub(a, b) == Add(a, Neg(b))
Mul(a, b) == IF a.s = 0 \/ b.s = 0 THEN Zero ELSE [s |-> a.s * b.s, l |-> NMul(a.l, b.l)]
(* C++ truncating division: quotient rounds toward zero, remainder has sign of dividend *)
DivModT(a, b) == LET qr == TLCEval(NDivMod(a.l, b.l)) IN <<Mk(a.s * b.s, qr[1]), Mk(a.s, qr[2])>>
(* floor division: remainder non-negative for positive divisor *)
DivModF(a, b) == LET t == DivModT(a, b) IN
                 IF t[2].s # 0 /\ t[2].s # b.s THEN <<Sub(t[1], FromInt(1)), Add(t[2], b)>> ELSE t
RECURSIVE Pow(_,_)
Pow(a, k) == IF k = 0 THEN FromInt(1) ELSE IF k % 2 = 1 THEN Mul(a, Pow(a, k-1)) ELSE LET h == Pow(a, k \div 2) IN Mul(h, h)
RECURSIVE Gcd(_,_)
Gcd(a, b) == IF b.s = 0 THEN BAbs(a) ELSE Gcd(b, DivModT(a, b)[2])
Pow2(k) == Pow(FromInt(2), k)

(* conversions *)
Fits31(a) == Len(a.l) <= 2 \/ (Len(a.l) = 3 /\ a.l[3] <= 20)      \* |a| < 21*10^8 < 2^31
ToInt(a) == a.s * (Dg(a.l,1) + B * Dg(a.l,2) + B * B * Dg(a.l,3))
DigitOf(c) == CHOOSE d \in 0..9 : ToString(d) = c
(* decimal string -> limbs: base 10^4 limbs are just groups of four digits from the right *)
RECURSIVE Chunk(_,_,_)
Chunk(str, lo, hi) == IF lo > hi THEN 0 ELSE 10 * Chunk(str, lo, hi - 1) + DigitOf(SubSeq(str, hi, hi))
RECURSIVE DecLimbs(_,_,_)
DecLimbs(str, first, hi) ==      \* digits occupy first..hi
  IF hi < first THEN <<>>
  ELSE LET lo == IF hi - 3 < first THEN first ELSE hi - 3
       IN <<Chunk(str, lo, hi)>> \o DecLimbs(str, first, lo - 1)
BI(str) == LET neg == SubSeq(str, 1, 1) = "-"
               l == NTrim(DecLimbs(str, IF neg THEN 2 ELSE 1, Len(str)))
           IN IF l = <<>> THEN Zero ELSE [s |-> (IF neg THEN -1 ELSE 1), l |-> l]
Pad4(n) == IF n < 10 THEN "000" \o ToString(n) ELSE IF n < 100 THEN "00" \o ToString(n) ELSE IF n < 1000 THEN "0" \o ToString(n) ELSE ToString(n)
RECURSIVE LimbsDec(_,_)
LimbsDec(l, i) == IF i = 0 THEN "" ELSE (IF i = Len(l) THEN ToString(l[i]) ELSE Pad4(l[i])) \o LimbsDec(l, i-1)
ToDec(x) == LET a == TLCEval(x) IN IF a.s = 0 THEN "0" ELSE (IF a.s < 0 THEN "-" ELSE "") \o LimbsDec(a.l, Len(a.l))
(* wire format {"s":..,"l":[..]} deserialises directly to this record shape *)
FromWire(w) == IF w.s = 0 THEN Zero ELSE [s |-> w.s, l |-> w.l]
=============================================================================
