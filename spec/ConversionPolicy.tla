-------------------------- MODULE ConversionPolicy --------------------------
(***************************************************************************)
(* Layer A model of au/code/au/conversion_policy.hh on the scaled machine. *)
(*                                                                         *)
(* State machine: one question "is Quantity<U2,R2> implicitly              *)
(* constructible from Quantity<U1,R1>?" with k = U1/U2 = n/d, answered by  *)
(* the chain of trait instantiations the library performs (one action per  *)
(* instantiated trait), which either produces an answer or makes the       *)
(* program ill-formed (a static_assert fires while asking).              *)
(*                                                                         *)
(* Property level (C06): the answer always exists (totality) and equals    *)
(* ImplicitOK; consequence lemma: a permitted conversion into an integral  *)
(* rep is an exact integer multiplication that cannot overflow for any     *)
(* |x| <= Thresh that R2 can hold.                                         *)
(***************************************************************************)
EXTENDS CxxInt

CONSTANTS Thresh,          \* the scaled OVERFLOW_THRESHOLD (2147 on the real machine)
          MaxK,            \* largest numerator / denominator of k
          TotalGetValue    \* TRUE: can_scale_without_overflow consults get_value_result (after fix D1)
                           \* FALSE: it calls get_value<Rep>, which static_asserts (the tree as found)

FloatRep == [f |-> 1]
IsF(r) == "f" \in DOMAIN r
IntRepsA == {Rep(4, TRUE), Rep(4, FALSE), Rep(6, TRUE), Rep(6, FALSE), Rep(8, TRUE), Rep(8, FALSE), Rep(10, TRUE), Rep(10, FALSE)}
RepsA == IntRepsA \cup {FloatRep}
Ratios == {f \in (1..MaxK) \X (1..MaxK) : Gcd(f[1], f[2]) = 1}

(* ---- property level ---- *)
ImplicitOK(r1, r2, n, d) ==
  \/ IsF(r2)
  \/ ~IsF(r1) /\ d = 1 /\ Thresh * n <= MaxOf(r2)
  \/ n = 1 /\ d = 1 /\ ~IsF(r1) /\ ~IsF(r2)

(* ---- implementation shaped ---- *)
VARIABLES r1, r2, n, d, pc, answer, illformed
vars == <<r1, r2, n, d, pc, answer, illformed>>
Init == /\ r1 \in RepsA /\ r2 \in RepsA
        /\ \E f \in Ratios : n = f[1] /\ d = f[2]
        /\ pc = "core" /\ answer = FALSE /\ illformed = FALSE

Finish(a) == answer' = a /\ pc' = "done" /\ UNCHANGED <<r1, r2, n, d, illformed>>
\* CoreImplicitConversionPolicyImplAssumingReal: floating target, identity specialisation, else the conjunction
Core == /\ pc = "core"
        /\ IF IsF(r2) THEN Finish(TRUE)
           ELSE IF n = 1 /\ d = 1 /\ r1 = r2 THEN Finish(TRUE)              \* <Rep, Magnitude<>, Rep> specialisation
           ELSE IF IsF(r1) THEN pc' = "carveout" /\ UNCHANGED <<r1, r2, n, d, answer, illformed>>   \* is_integral<SourceRep> false
           ELSE IF d # 1 THEN pc' = "carveout" /\ UNCHANGED <<r1, r2, n, d, answer, illformed>>     \* IsInteger<ScaleFactor> false
           ELSE pc' = "canscale" /\ UNCHANGED <<r1, r2, n, d, answer, illformed>>
\* CanScaleThresholdWithoutOverflow: BOTH bool_constant arguments are evaluated when the type is named
CanScale == /\ pc = "canscale"
            /\ LET inr == InRange(r2, Thresh)
                   shrink == n <= d                                   \* get_value<double>(m) <= 1.0
                   fits == InRange(r2, n)                             \* get_value<Rep>(m) representable
               IN IF shrink THEN (IF inr THEN Finish(TRUE) ELSE pc' = "carveout" /\ UNCHANGED <<r1, r2, n, d, answer, illformed>>)
                  ELSE IF ~fits /\ ~TotalGetValue THEN illformed' = TRUE /\ pc' = "done" /\ UNCHANGED <<r1, r2, n, d, answer>>
                  ELSE IF inr /\ fits /\ CDiv(MaxOf(r2), n) >= Thresh THEN Finish(TRUE)
                  ELSE pc' = "carveout" /\ UNCHANGED <<r1, r2, n, d, answer, illformed>>
\* PermitAsCarveOutForIntegerPromotion
CarveOut == /\ pc = "carveout"
            /\ Finish(n = 1 /\ d = 1 /\ ~IsF(r1) /\ ~IsF(r2))
Next == Core \/ CanScale \/ CarveOut \/ (pc = "done" /\ UNCHANGED vars)
Spec == Init /\ [][Next]_vars

(* ---- invariants ---- *)
Total == ~illformed                                                          \* asking never makes the program ill-formed
AsDocumented == (pc = "done" /\ ~illformed) => (answer = ImplicitOK(r1, r2, n, d))
\* consequence lemma (property level)
NoOverflowBelowThreshold ==
  (ImplicitOK(r1, r2, n, d) /\ ~IsF(r1) /\ ~IsF(r2)) =>
     /\ d = 1                                                                \* exact multiplication by an integer
     /\ \A v \in ValuesOf(r1) : (Abs(v) <= Thresh /\ InRange(r2, v)) => InRange(r2, v * n)
=============================================================================
