---- MODULE Trace_Point ----
EXTENDS PointBig
Obs == ndJsonDeserialize(IOEnv.TRACE)
OkRec(r) == IF r.k = "pconv" THEN (VerdictConv(r).ok /\ VerdictConv(r).cmp) ELSE VerdictMixedPt(r).ok
Bad == {k \in 1..Len(Obs) : ~OkRec(Obs[k])}
ASSUME PrintT(<<"VALIDATED", ToJson([n |-> Len(Obs)])>>)
ASSUME \A k \in Bad : PrintT(<<"BADREC", ToJson([rec |-> Obs[k]])>>)
VARIABLE dummy
Init == dummy = 0
Next == UNCHANGED dummy
====
