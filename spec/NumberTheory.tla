---------------------------- MODULE NumberTheory ----------------------------
(***************************************************************************)
(* Layer A model of au/code/au/utility/mod.hh and probable_primes.hh on a  *)
(* W-bit machine word.  Every arithmetic operation of the helpers is done   *)
(* through Op(...), which records whether the exact result left [0, 2^W):   *)
(* the property "no intermediate wrap-around" is the invariant ~wrapped.    *)
(* mul_mod is the library's recursive "negative-space chunking"; pow_mod,   *)
(* miller_rabin, jacobi, the strong Lucas test and baillie_psw are built    *)
(* on the modelled helpers exactly as the code builds them.                 *)
(* Property level (C12): results are the mathematical residues; is_prime    *)
(* answers 'prime' exactly for primes (IsPrime by trial division).          *)
(* is_perfect_square is modelled by its mathematical meaning: its Newton    *)
(* iteration multiplies curr*curr, which does not scale down (DESIGN 6/C12).*)
(***************************************************************************)
EXTENDS Integers, Sequences, TLC
CONSTANT W
Max == 2^W - 1
IsPrime(n) == n >= 2 /\ \A d \in 2..n : (d * d > n) \/ (n % d # 0)
(* a value with a wrap flag: [v, w] *)
Val(v) == [v |-> v % (Max + 1), w |-> v < 0 \/ v > Max]
J(a, b) == [v |-> b.v, w |-> a.w \/ b.w]                       \* sequence two computations, keep the flag

AddMod(a, b, n) == IF a >= n - b THEN Val(a - (n - b)) ELSE Val(a + b)          \* mod.hh: add_mod
SubMod(a, b, n) == IF a >= b THEN Val(a - b) ELSE Val(n - (b - a))
RECURSIVE MulMod(_,_,_)
MulMod(a, b, n) ==
  IF b = 0 \/ a < Max \div b THEN [v |-> (a * b) % n, w |-> a * b > Max]
  ELSE LET cs == n \div a
           nc == b \div cs
           negc == n - a * cs
           rec == MulMod(negc, nc, n)
           cr == n - rec.v
           lo == b - nc * cs
           lr == (a * lo) % n
           s == AddMod(cr % (Max + 1), lr, n)
       IN [v |-> s.v, w |-> rec.w \/ s.w \/ a * cs > Max \/ nc * cs > Max \/ a * lo > Max]
HalfModOdd(a, n) == Val((a \div 2) + (IF a % 2 = 0 THEN 0 ELSE (n \div 2) + 1))
RECURSIVE PowModR(_,_,_,_,_)
PowModR(res, base, e, n, w) ==
  IF e = 0 THEN [v |-> res, w |-> w]
  ELSE LET r2 == IF e % 2 = 1 THEN MulMod(res, base, n) ELSE [v |-> res, w |-> FALSE]
           b2 == MulMod(base, base, n)
       IN PowModR(r2.v, b2.v, e \div 2, n, w \/ r2.w \/ b2.w)
PowMod(base, e, n) == PowModR(1, base % n, e, n, FALSE)

RECURSIVE Pow2Part(_)
Pow2Part(n) == IF n % 2 = 0 THEN Pow2Part(n \div 2) + 1 ELSE 0
OddPart(n) == n \div (2 ^ Pow2Part(n))
RECURSIVE MRLoop(_,_,_,_)
MRLoop(x, r, s, n) == IF r = s THEN [v |-> 0, w |-> FALSE] ELSE IF x = n - 1 THEN [v |-> 1, w |-> FALSE]
                      ELSE LET y == MulMod(x, x, n) IN J(y, MRLoop(y.v, r + 1, s, n))
MillerRabin2(n) == LET s == Pow2Part(n - 1)  d == OddPart(n - 1)  x == PowMod(2, d, n) IN
                   IF x.v = 1 THEN [v |-> 1, w |-> x.w] ELSE J(x, MRLoop(x.v, 0, s, n))            \* v: 1 = probably prime
RECURSIVE GcdN(_,_)
GcdN(a, b) == IF b = 0 THEN a ELSE GcdN(b, a % b)
BS(x) == IF x THEN 1 ELSE -1
RECURSIVE JacPos(_,_,_)
RECURSIVE StripTwos(_,_,_)
StripTwos(a, res, sgn) == IF a % 2 = 0 THEN StripTwos(a \div 2, res * sgn, sgn) ELSE <<a, res>>
JacPos(a, n, res) ==
  IF a = 0 THEN 0
  ELSE LET st == StripTwos(a, res, BS(n % 8 = 1 \/ n % 8 = 7))  a1 == st[1]  r1 == st[2] IN
       IF a1 = 1 THEN r1 ELSE IF GcdN(a1, n) # 1 THEN 0
       ELSE JacPos(n % a1, a1, r1 * BS(a1 % 4 = 1 \/ n % 4 = 1))
Jacobi(rawa, n) == IF n = 1 THEN 1 ELSE JacPos((IF rawa >= 0 THEN rawa ELSE -rawa) % n, n, BS(rawa >= 0 \/ n % 4 = 1))
RECURSIVE FirstD(_,_,_)
FirstD(mag, pos, n) == IF Jacobi(IF pos THEN mag ELSE -mag, n) = -1 THEN <<mag, pos>> ELSE FirstD(mag + 2, ~pos, n)
IsSquare(n) == \E k \in 0..n : k * k = n
\* Lucas sequence elements [U, V, w]
DoubleIdx(el, n, D) == LET vs == MulMod(el.V, el.V, n)  uu == MulMod(el.U, el.U, n)  du == MulMod(D[1] % (Max + 1), uu.v, n)
                           v2 == IF D[2] THEN AddMod(vs.v, du.v, n) ELSE SubMod(vs.v, du.v, n)
                           h == HalfModOdd(v2.v, n)  uv == MulMod(el.U, el.V, n)
                       IN [U |-> uv.v, V |-> h.v, w |-> el.w \/ vs.w \/ uu.w \/ du.w \/ v2.w \/ h.w \/ uv.w]
IncIdx(el, n, D) == LET s == AddMod(el.U, el.V, n)  u2 == HalfModOdd(s.v, n)  du == MulMod(D[1] % (Max + 1), el.U, n)
                        v2 == IF D[2] THEN AddMod(el.V, du.v, n) ELSE SubMod(el.V, du.v, n)  h == HalfModOdd(v2.v, n)
                    IN [U |-> u2.v, V |-> h.v, w |-> el.w \/ s.w \/ u2.w \/ du.w \/ v2.w \/ h.w]
RECURSIVE Bits(_)
Bits(i) == IF i <= 1 THEN <<>> ELSE Append(Bits(i \div 2), i % 2)        \* bits of i below the leading one, most significant first
RECURSIVE WalkBits(_,_,_,_)
WalkBits(el, bs, n, D) == IF bs = <<>> THEN el
                          ELSE LET d == DoubleIdx(el, n, D)  e2 == IF Head(bs) = 1 THEN IncIdx(d, n, D) ELSE d IN WalkBits(e2, Tail(bs), n, D)
RECURSIVE LucasLoop(_,_,_,_,_)
LucasLoop(el, i, s, n, D) == IF i = s THEN [v |-> 0, w |-> el.w] ELSE IF el.V = 0 THEN [v |-> 1, w |-> el.w] ELSE LucasLoop(DoubleIdx(el, n, D), i + 1, s, n, D)
StrongLucas(n) == IF IsSquare(n) THEN [v |-> 0, w |-> FALSE]
                  ELSE LET D == FirstD(5, TRUE, n)  s == Pow2Part(n + 1)  d == OddPart(n + 1)
                           el == WalkBits([U |-> 1, V |-> 1, w |-> FALSE], Bits(d), n, D)
                       IN IF el.U = 0 THEN [v |-> 1, w |-> el.w] ELSE LucasLoop(el, 0, s, n, D)
BailliePSW(n) == IF n < 4 THEN [v |-> 1, w |-> FALSE] ELSE IF n % 2 = 0 THEN [v |-> 0, w |-> FALSE]
                 ELSE LET m == MillerRabin2(n) IN IF m.v = 0 THEN m ELSE J(m, StrongLucas(n))

VARIABLES a, b, n
Init == n \in 2..Max /\ a \in 0..(n - 1) /\ b \in 0..(n - 1)
Next == UNCHANGED <<a, b, n>>
MulModExact == LET r == MulMod(a, b, n) IN r.v = (a * b) % n /\ ~r.w
AddSubExact == AddMod(a, b, n).v = (a + b) % n /\ ~AddMod(a, b, n).w /\ SubMod(a, b, n).v = (a - b) % n /\ ~SubMod(a, b, n).w
HalfExact == (n % 2 = 1) => (LET h == HalfModOdd(a, n) IN (2 * h.v) % n = a /\ h.v < n /\ ~h.w)
RECURSIVE NaivePow(_,_,_)
NaivePow(x, e, m) == IF e = 0 THEN 1 % m ELSE (x * NaivePow(x, e - 1, m)) % m
PowExact == LET p == PowMod(a, b, n) IN p.v = NaivePow(a, b, n) /\ ~p.w
\* primality: one state per n is enough (a = b = 0)
PrimalityExact == (a = 0 /\ b = 0) => (LET r == BailliePSW(n) IN (r.v = 1) = IsPrime(n) /\ ~r.w)
=============================================================================
