----------------------------- MODULE Gen_Common -----------------------------
(* Case emission for C07: lists of same-dimension units from the real catalogue (named, prefixed, anonymous   *)
(* scaled with factors up to 2^40, pi-scaled), with the property-level common unit: the base-wise minimum     *)
(* of exponents, hence each input's cofactor as an exponent pack.                                             *)
EXTENDS CommonUnit, Catalogue, Json, IOUtils, TLC, Randomization
U(i) == [op |-> "unit", id |-> i]
P(p, i) == [op |-> "prefix", p |-> p, x |-> U(i)]
S(i, m) == [op |-> "scale", x |-> U(i), m |-> m]
Families == <<
  << U("Meters"), U("Feet"), U("Inches"), U("Yards"), U("Miles"), U("NauticalMiles"), U("Fathoms"), U("Furlongs"),
     P("kilo", "Meters"), P("milli", "Meters"), P("centi", "Meters"),
     S("Meters", <<BP(4, -7, 1), BP(6, 1, 1)>>), S("Feet", <<BP(6, -1, 1)>>), S("Inches", <<BP(4, 2, 1)>>),
     S("Meters", <<BP(4, 40, 1), BP(6, -1, 1)>>), S("Meters", <<BP(6, -1, 1), BP(10, -2, 1), BP(22, -1, 1), BP(34, -1, 1), BP(62, -1, 1), BP(82, -1, 1), BP(123362, -1, 1)>>),
     S("Meters", <<BP(7, 1, 1)>>), S("Inches", <<BP(4, 1, 2)>>), S("Feet", <<BP(6, 1, 1)>>), S("Inches", <<BP(4, 2, 1), BP(6, 2, 1)>>),
     S("Feet", <<BP(6, 2, 1)>>), S("Yards", <<BP(6, 1, 1)>>), S("Feet", <<BP(4, 3, 1)>>), S("Inches", <<BP(4, 5, 1), BP(6, 1, 1)>>) >>,   \* 9 ft and 3 yd; 8 ft and 96 in: equal sizes, factors differing in an exponent   \* [3 ft] and [36 in]: anonymous twins of Yards
  << U("Seconds"), U("Minutes"), U("Hours"), U("Days"), P("milli", "Seconds"), P("micro", "Seconds"), P("nano", "Seconds"), P("kilo", "Seconds"),
     S("Seconds", <<BP(4, -4, 1), BP(6, -1, 1), BP(10, -4, 1), BP(14, 1, 1), BP(22, 1, 1), BP(26, 1, 1)>>) >>,
  << U("Radians"), U("Degrees"), U("Revolutions"), U("Arcminutes"), U("Arcseconds"), P("milli", "Radians"), S("Degrees", <<BP(4, -1, 1)>>),
     S("Revolutions", <<BP(14, -1, 1)>>), S("Degrees", <<BP(4, 1, 1), BP(22, -1, 1)>>), S("Radians", <<BP(6, 1, 1), BP(7, 1, 1), BP(10, -1, 1)>>) >>,   \* rev/7, 2deg/11, (3pi/5) rad: rational, non-integer ratios among pi-carrying units
  << U("Bits"), U("Bytes"), P("kibi", "Bytes"), P("kilo", "Bits"), P("mebi", "Bits"), S("Bytes", <<BP(6, 1, 1)>>), S("Bits", <<BP(4, 4, 1)>>), S("Bytes", <<BP(4, 1, 1)>>) >>,
  << U("Grams"), U("PoundsMass"), U("Slugs"), P("kilo", "Grams"), P("milli", "Grams"), S("PoundsMass", <<BP(4, -4, 1)>>) >>,
  << U("Kelvins"), U("Celsius"), U("Fahrenheit"), P("milli", "Kelvins"), P("centi", "Celsius"), S("Kelvins", <<BP(4, -1, 1)>>) >> >>
Tier == IF "TIER" \in DOMAIN IOEnv THEN IOEnv.TIER ELSE "quick"
N3 == IF Tier = "quick" THEN 40 ELSE 400
N4 == IF Tier = "quick" THEN 16 ELSE 150
Pairs(F) == { <<F[i], F[j]>> : i, j \in 1..Len(F) }
Triples(F) == { <<F[i], F[j], F[k]>> : i, j, k \in 1..Len(F) }
Quads(F) == { <<F[i], F[j], F[k], F[l]>> : i, j, k, l \in 1..Len(F) }
Sample(n, S0) == IF Cardinality(S0) <= n THEN S0 ELSE RandomSubset(n, S0)
AllLists == UNION { Pairs(Families[f]) \cup Sample(N3, Triples(Families[f])) \cup Sample(N4, Quads(Families[f])) : f \in 1..Len(Families) }
VARIABLES es
Init == es \in AllLists
Next == UNCHANGED es
Terms == [i \in 1..Len(es) |-> TypeNF(es[i])]
AsSet(f) == {[b |-> k, n |-> f[k][1], d |-> f[k][2]] : k \in DOMAIN f}
Cof(i) == MapMul(MagMap(Terms[i]), MapPow(MinMap(Terms), <<-1, 1>>))
Emit == PrintT(<<"CASE", ToJson([es |-> es, rational |-> RationalRatios(Terms), excluded |-> AnyBroken(Terms),
                                 cof |-> [i \in 1..Len(es) |-> AsSet(Cof(i))],
                                 equiv_input |-> {i \in 1..Len(es) : Cof(i) = <<>>}])>>)
\* sanity of the property-level oracle itself: cofactors of rational lists are integers and jointly coprime
OracleSane == RationalRatios(Terms) =>
                /\ \A i \in 1..Len(es) : \A b \in DOMAIN Cof(i) : Cof(i)[b][2] = 1 /\ Cof(i)[b][1] > 0
                /\ \A b \in UNION {DOMAIN Cof(i) : i \in 1..Len(es)} : \E i \in 1..Len(es) : b \notin DOMAIN Cof(i)
=============================================================================
