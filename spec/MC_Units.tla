------------------------------ MODULE MC_Units ------------------------------
(* Layer A for C02: exhaustive over all expressions of depth <= 2 (and all triples for re-association) *)
(* over a universe drawn from the real catalogue.  The state is an expression pair <<e1, e2>>: e2 is    *)
(* obtained from e1 by one algebraic identity (Rewrite actions); invariants relate their normal forms.  *)
EXTENDS Units, Catalogue
CONSTANTS Ids, Small0     \* Small0 = TRUE: reduced sets of magnitudes / prefixes (quick tier)
Leaf == {[op |-> "unit", id |-> i] : i \in Ids}
Exps == {<<-1, 1>>, <<2, 1>>, <<1, 2>>}
Mags == IF Small0 THEN {<<BP(6, -1, 1)>>, <<BP(7, 1, 1)>>} ELSE {<<BP(4, 1, 1)>>, <<BP(6, -1, 1)>>, <<BP(7, 1, 1)>>, <<BP(4, 1, 2)>>}
Prefs == IF Small0 THEN {"kilo"} ELSE {"kilo", "milli", "kibi"}
D1 == Leaf \cup {[op |-> "pow", x |-> a, r |-> r] : a \in Leaf, r \in Exps}
           \cup {[op |-> "scale", x |-> a, m |-> m] : a \in Leaf, m \in Mags}
           \cup {[op |-> "prefix", x |-> a, p |-> p] : a \in Leaf, p \in Prefs}
D2 == D1 \cup {[op |-> o, l |-> a, r |-> b] : o \in {"mul", "div"}, a \in D1, b \in D1}
Small == Leaf \cup {[op |-> "pow", x |-> a, r |-> <<-1, 1>>] : a \in Leaf}

Mul(a, b) == [op |-> "mul", l |-> a, r |-> b]
Div(a, b) == [op |-> "div", l |-> a, r |-> b]
Pow(a, r) == [op |-> "pow", x |-> a, r |-> r]

VARIABLES e1, e2, rule
Init == /\ e1 \in D2 /\ e2 = e1 /\ rule = "none"
Commute == /\ rule = "none" /\ e1.op = "mul" /\ e2' = Mul(e1.r, e1.l) /\ rule' = "commute" /\ UNCHANGED e1
DivAsInverse == /\ rule = "none" /\ e1.op = "div" /\ e2' = Mul(e1.l, Pow(e1.r, <<-1, 1>>)) /\ rule' = "div-as-inverse" /\ UNCHANGED e1
DistributePower == /\ rule = "none" /\ e1.op \in {"mul", "div"}
                   /\ \E r \in Exps : /\ e1' = Pow(e1, r)
                                      /\ e2' = [op |-> e1.op, l |-> Pow(e1.l, r), r |-> Pow(e1.r, r)]
                   /\ rule' = "distribute-power"
PowerOfPower == /\ rule = "none" /\ e1.op = "pow"
                /\ \E r \in Exps : /\ e1' = Pow(e1, r) /\ e2' = Pow(e1.x, RMul(e1.r, r))
                /\ rule' = "power-of-power"
Reassociate == /\ rule = "none" /\ e1 \in Leaf
               /\ \E b \in Small, c \in Small : e1' = Mul(Mul(e1, b), c) /\ e2' = Mul(e1, Mul(b, c))
               /\ rule' = "reassociate"
MultiplyAndCancel == /\ rule = "none" /\ e1 \in D1
                     /\ \E b \in Leaf : e1' = e1 /\ e2' = Div(Mul(e1, b), b)
                     /\ rule' = "cancel"
Next == Commute \/ DivAsInverse \/ DistributePower \/ PowerOfPower \/ Reassociate \/ MultiplyAndCancel
        \/ (rule # "none" /\ UNCHANGED <<e1, e2, rule>>)
Spec == Init /\ [][Next]_<<e1, e2, rule>>

ValidPack(p) == \A i \in 1..Len(p) : ~RZero(p[i].e)
Ok(e) == ~Broken(e)
(* the implementation-shaped normal form has exactly the dimension and magnitude the algebra demands *)
Exact == (Ok(e1) /\ Ok(e2)) =>
           /\ MapOf(DimOf(TypeNF(e1))) = DenDim(e1) /\ MapOf(MagOf(TypeNF(e1))) = DenMag(e1)
           /\ MapOf(DimOf(TypeNF(e2))) = DenDim(e2) /\ MapOf(MagOf(TypeNF(e2))) = DenMag(e2)
           /\ ValidPack(DimOf(TypeNF(e1))) /\ ValidPack(MagOf(TypeNF(e1)))
(* rewriting by an algebraic identity never changes the denotation *)
RewriteSound == DenDim(e1) = DenDim(e2) /\ DenMag(e1) = DenMag(e2)
(* ... and for pure products/powers of named units it does not even change the type *)
Canonical == (Ok(e1) /\ Ok(e2) /\ IsPure(e1) /\ IsPure(e2)) => TypeNF(e1) = TypeNF(e2)
(* the gauntlet is a strict total order on the unit types it is asked about, except the documented ties *)
OrderTotal == (e1.op \in {"mul", "div"} /\ Ok(e1)) =>
                \A i \in 1..Len(AsBps(TypeNF(e1.l))), j \in 1..Len(AsBps(TypeNF(e1.r))) :
                   LET a == AsBps(TypeNF(e1.l))[i].b  b == AsBps(TypeNF(e1.r))[j].b IN
                   /\ UCmp(a, b) \in {"lt", "gt", "eq"}
                   /\ (UCmp(a, b) = "lt") = (UCmp(b, a) = "gt")
=============================================================================
