---- MODULE Trace_Packaging ----
(* C20, records from builds of the real headers.  The specification of packaging is an equivalence: what a program does is a  *)
(* function of the program alone -- not of (single file | header tree), language level or compiler.                            *)
(*   k = "alike" : one program (probe or API-surface program for a rep class) built in several configurations;                 *)
(*                 obs[i] = [cfg, verdict ("accepted"|"rejected"), out (digest of stdout, "" when rejected or not run)]        *)
(*   k = "sf"    : one generated single file: project includes left in the text, #pragma once count, and the three builds      *)
(*                 (alone with no other Au file reachable, included twice, two translation units linked) as 0/1                *)
(*   k = "hdr"   : one public header compiled on its own (and twice) in one configuration; ok = 0/1                            *)
(*   k = "fwd"   : a forward-declaration header followed by its definition, with every declared name completed; ok = 0/1      *)
EXTENDS Integers, Sequences, FiniteSets, TLC, Json, IOUtils
Obs == ndJsonDeserialize(IOEnv.TRACE)
Alike(r) == \A i, j \in 1..Len(r.obs) : r.obs[i].verdict = r.obs[j].verdict /\ r.obs[i].out = r.obs[j].out
\* code = the generated text is exactly the code lines of the closure's files in the emitted order, once each; incs = exactly their system includes
SelfContained(r) == r.left = 0 /\ r.pragmas = 1 /\ r.alone = 1 /\ r.twice = 1 /\ r.linked = 1 /\ r.code = 1 /\ r.incs = 1
OkRec(r) == CASE r.k = "alike" -> Alike(r)
              [] r.k = "sf" -> SelfContained(r)
              [] r.k = "hdr" -> r.ok = 1
              [] r.k = "fwd" -> r.ok = 1
              [] OTHER -> FALSE
Bad == {k \in 1..Len(Obs) : ~OkRec(Obs[k])}
ASSUME PrintT(<<"VALIDATED", ToJson([n |-> Len(Obs)])>>)
ASSUME \A k \in Bad : PrintT(<<"BADREC", ToJson([id |-> Obs[k].id])>>)
VARIABLE dummy
Init == dummy = 0
Next == UNCHANGED dummy
====
