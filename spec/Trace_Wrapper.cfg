INIT Init
NEXT Next
