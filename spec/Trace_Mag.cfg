INIT Init
NEXT Next
