CONSTANTS Cat <- ModelCat Pre <- ModelPre Org <- ModelOrg MaxLen = 3
SPECIFICATION Spec
INVARIANTS AffineIntegral Symmetric IsAnInputWhenPossible OriginIsMinimum
