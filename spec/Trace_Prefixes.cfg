INIT Init
NEXT Next
