INIT Init
NEXT Next
