------------------------------ MODULE CastBig ------------------------------
(***************************************************************************)
(* Property-level predicates of C05 (rep-changing conversions and the <T>  *)
(* checkers) for the real machine, over BigInt, with exact floating-point  *)
(* values  (-1)^s * m * 2^e.                                               *)
(*                                                                         *)
(* The conversion q.as<T>(u) of a Quantity<U,S> is the three-stage pipeline *)
(*   CastToCommon (S -> C = std::common_type<S,T>)                          *)
(*   ScaleInCommon (same-rep conversion at rep C, ConvBig.tla)              *)
(*   CastToTarget (C -> T)                                                  *)
(* and C05 says: not lossy => every stage defined, in range, result exact   *)
(* (all-integer path) / the value-preserving cast of the floating           *)
(* intermediate; not castable => lossy; integral source: overflow reported  *)
(* only if some stage's exact value leaves that stage's range.              *)
(***************************************************************************)
EXTENDS ConvBig

FloatReps == {"f32", "f64", "f80"}
IsFloatRep(r) == r \in FloatReps
FRank(r) == CASE r = "f32" -> 1 [] r = "f64" -> 2 [] r = "f80" -> 3
Prec(r) == CASE r = "f32" -> 24 [] r = "f64" -> 53 [] r = "f80" -> 64
EMax(r) == CASE r = "f32" -> 127 [] r = "f64" -> 1023 [] r = "f80" -> 16383      \* max = (2^p - 1) * 2^(EMax - p + 1)
EMinN(r) == CASE r = "f32" -> -126 [] r = "f64" -> -1022 [] r = "f80" -> -16382  \* smallest normal = 2^EMinN

(* C++ usual arithmetic conversions on the real machine *)
IRank(r) == CASE r \in {"i32","u32"} -> 1 [] r \in {"i64","u64"} -> 2
UACInt(a, b) == LET p == Promote(a)  q == Promote(b) IN
  IF p = q THEN p
  ELSE IF Signed(p) = Signed(q) THEN (IF IRank(p) >= IRank(q) THEN p ELSE q)
  ELSE LET u == IF Signed(p) THEN q ELSE p   g == IF Signed(p) THEN p ELSE q IN
       IF IRank(u) >= IRank(g) THEN u ELSE g
CommonType(a, b) ==
  IF a = b THEN a
  ELSE IF IsFloatRep(a) /\ IsFloatRep(b) THEN (IF FRank(a) >= FRank(b) THEN a ELSE b)
  ELSE IF IsFloatRep(a) THEN a ELSE IF IsFloatRep(b) THEN b
  ELSE UACInt(a, b)

----------------------------------------------------------------------------
(* all-integer path *)
Ovf3(s, t, x, n, d) ==       \* some stage's exact value leaves that stage's range
  LET c == CommonType(s, t) IN
  \/ ~InRange(c, x)
  \/ ExactOvf(c, x, n, d)
  \/ ~InRange(t, ExactValue(x, n, d))
(* closed form: interval of inputs for which no stage overflows (monotone in x, contains 0)   *)
Contract3(s, t, n, d) ==
  LET c  == CommonType(s, t)
      p  == Promote(c)
      \* stage 3: trunc(x*n/d) <= Tmax  <=>  x*n < (Tmax+1)*d ;  >= Tmin  <=>  x*n > (Tmin-1)*d
      h3 == Sub(CeilDiv(Mul(Add(MaxOf(t), One), d), n), One)
      l3 == Add(FloorDiv(Mul(Sub(MinOf(t), One), d), n), One)
      hi == BMin(BMin(MaxOf(s), MaxOf(c)), BMin(BMin(FloorDiv(MaxOf(p), n), FloorDiv(Mul(MaxOf(c), d), n)), h3))
      lo == BMax(BMax(MinOf(s), MinOf(c)), BMax(BMax(CeilDiv(MinOf(p), n), CeilDiv(Mul(MinOf(c), d), n)), l3))
  IN [k |-> "contract3", S |-> s, T |-> t, C |-> c, N |-> ToDec(n), D |-> ToDec(d), lo |-> ToDec(lo), hi |-> ToDec(hi),
      mod |-> ToDec(d), compiles |-> PredCompiles(c, n, d)]

VerdictII(r) ==
  LET x == FromWire(r.x) n == FromWire(r.N) d == FromWire(r.D)
      o3 == Ovf3(r.S, r.T, x, n, d)
      et == ExactTrunc(x, n, d)
  IN [ok |-> /\ (r.ovf = 1) => o3                                  \* overflow only when real
             /\ o3 => (r.lossy = 1)                                 \* not representable => lossy
             /\ (r.lossy = 0) => (~o3 /\ ~et /\ FromWire(r.res) = ExactValue(x, n, d) /\ r.ub = 0)
             /\ (r.lossy = 1) = (r.ovf = 1 \/ r.trunc = 1),
      cmp |-> (r.covf = 1) = o3 /\ (r.ctrunc = 1) = et, o3 |-> o3, et |-> et]

----------------------------------------------------------------------------
(* exact floating-point values *)
P2Tab == [k \in 0..300 |-> Pow2(k)]
P2(k) == IF k <= 300 THEN P2Tab[k] ELSE Pow2(k)
RECURSIVE BitLenFrom(_,_,_)
BitLenFrom(m, lo, hi) ==      \* smallest k in lo..hi with m < 2^k   (m >= 0)
  IF lo = hi THEN lo ELSE LET mid == (lo + hi) \div 2 IN IF Lt(m, P2(mid)) THEN BitLenFrom(m, lo, mid) ELSE BitLenFrom(m, mid + 1, hi)
BitLen(m0) == LET m == BAbs(m0)  nl == Len(m.l) IN
  IF m = Zero THEN 0 ELSE BitLenFrom(m, (1328 * (nl - 1)) \div 100, (1329 * nl) \div 100 + 1)     \* 13.28(n-1) < bits <= 13.29n + 1

IsFin(x) == x.cls \in {"fin", "zero"}
SMant(x) == IF x.cls = "fin" THEN (IF x.s = 1 THEN Neg(FromWire(x.m)) ELSE FromWire(x.m)) ELSE Zero
FExp(x) == IF x.cls = "fin" THEN x.e ELSE 0
(* a source value of either kind as  mant * 2^exp *)
SrcMant(r) == IF IsFloatRep(r.S) THEN SMant(r.x) ELSE FromWire(r.x)
SrcExp(r) == IF IsFloatRep(r.S) THEN FExp(r.x) ELSE 0
SrcFin(r) == IF IsFloatRep(r.S) THEN IsFin(r.x) ELSE TRUE

(* sign-aware comparison of a*2^ea with b*2^eb; brackets by bit length before shifting *)
CmpS(a, ea, b, eb) ==
  IF a.s # b.s THEN (IF a.s < b.s THEN -1 ELSE 1)
  ELSE IF a.s = 0 THEN 0
  ELSE LET la == BitLen(a) + ea   lb == BitLen(b) + eb IN
       IF la < lb THEN -a.s ELSE IF la > lb THEN a.s
       ELSE IF ea >= eb THEN Cmp(Mul(a, P2(ea - eb)), b) ELSE Cmp(a, Mul(b, P2(eb - ea)))

(* float -> integer cast *)
TruncMag(x) ==       \* |trunc(x)| for finite x with BitLen + e <= 200
  IF x.cls = "zero" THEN Zero
  ELSE LET m == FromWire(x.m) IN
       IF x.e >= 0 THEN Mul(m, P2(x.e))
       ELSE IF -x.e >= BitLen(m) THEN Zero ELSE DivModT(m, P2(-x.e))[1]
HugeF(x) == x.cls = "fin" /\ BitLen(FromWire(x.m)) + x.e > 200
IsIntegralF(x) == x.cls = "zero" \/ (x.cls = "fin" /\ (x.e >= 0 \/ (-x.e < BitLen(FromWire(x.m)) /\ DivModT(FromWire(x.m), P2(-x.e))[2] = Zero)))
TruncVal(x) == LET t == TruncMag(x) IN IF x.s = 1 THEN Neg(t) ELSE t
CastDefined(t, x) == IsFin(x) /\ ~HugeF(x) /\ InRange(t, TruncVal(x))      \* [conv.fpint]: truncated value representable

(* round an exact value mant*2^e (mant # 0) to format r, round-to-nearest-even; normal range only.   *)
(* result [ok, m, e] with m odd-normalised like the wire format; ok = FALSE outside the normal range  *)
RECURSIVE OddNorm(_,_)
OddNorm(m, e) == IF m.s # 0 /\ DivModT(m, FromInt(2))[2] = Zero THEN OddNorm(DivModT(m, FromInt(2))[1], e + 1) ELSE <<m, e>>
RoundRNE(r, mant, e) ==
  LET a == BAbs(mant)  L == BitLen(a)  p == Prec(r) IN
  IF L <= p THEN [ok |-> (L + e - 1 <= EMax(r) /\ L + e - 1 >= EMinN(r)), m |-> OddNorm(a, e)[1], e |-> OddNorm(a, e)[2]]
  ELSE LET sh == L - p
           qr == DivModT(a, P2(sh))
           half == P2(sh - 1)
           c == Cmp(qr[2], half)
           up == c > 0 \/ (c = 0 /\ DivModT(qr[1], FromInt(2))[2] # Zero)
           q == IF up THEN Add(qr[1], One) ELSE qr[1]
           on == OddNorm(q, e + sh)
           top == BitLen(q) + e + sh - 1
       IN [ok |-> (top <= EMax(r) /\ top >= EMinN(r)), m |-> on[1], e |-> on[2]]

(* |y - E| <= 2^(5-p) * |E|  for y = A*2^ea and E = Bn*2^eb / Bd ; all integers signed *)
InBand(r, ymant, ye, emant, ee, eden) ==
  LET AA == Mul(ymant, eden)  BB == emant
      la == BitLen(AA) + ye   lb == BitLen(BB) + ee IN
  IF BB.s = 0 THEN AA.s = 0
  ELSE IF AA.s # BB.s THEN FALSE
  ELSE IF la > lb + 2 \/ lb > la + 2 THEN FALSE
  ELSE LET e0 == IF ye < ee THEN ye ELSE ee
           AA1 == Mul(AA, P2(ye - e0))   BB1 == Mul(BB, P2(ee - e0))
           diff == BAbs(Sub(AA1, BB1))
       IN Le(Mul(diff, P2(Prec(r) - 5)), BAbs(BB1))
(* is |E| (= emant*2^ee/eden) in the comfortable normal range of format r? (band only claimed there) *)
Comfortable(r, emant, ee, eden) ==
  LET lb == BitLen(emant) + ee - BitLen(eden) IN emant.s # 0 /\ lb > EMinN(r) + 4 /\ lb < EMax(r) - 4
(* is |E| clearly beyond the largest finite value of r / clearly below it *)
ClearlyAboveMax(r, emant, ee, eden) == BitLen(emant) + ee - BitLen(eden) > EMax(r) + 2
ClearlyBelowMax(r, emant, ee, eden) == BitLen(emant) + ee - BitLen(eden) < EMax(r) - 1

SameF(a, b) == a.cls = b.cls /\ (a.cls = "nan" \/ (a.s = b.s /\ (a.cls # "fin" \/ (a.m = b.m /\ a.e = b.e))))

(* record with a floating type somewhere on the path:
   {S,T,C,N,D (wire), x (int wire | float), y (float: the scaled value in C), res (int wire | float), ovf,trunc,lossy,ub} *)
VerdictF(r) ==
  LET n == FromWire(r.N)  d == FromWire(r.D)
      c == r.C
      xm == SrcMant(r)  xe == SrcExp(r)
      emant == Mul(xm, n)                          \* exact scaled value  E = emant * 2^xe / d
      ym == SMant(r.y)  ye == FExp(r.y)
      finx == SrcFin(r)
      comfy == finx /\ Comfortable(c, emant, xe, d) /\ (IsFloatRep(r.S) \/ BitLen(xm) <= Prec(c) + 40)
      bandok == (r.y.cls = "fin" /\ InBand(c, ym, ye, emant, xe, d))
      tint == ~IsFloatRep(r.T)
      castok == IF tint THEN CastDefined(r.T, r.y) ELSE TRUE
      resok == IF tint THEN (castok /\ IsIntegralF(r.y) /\ FromWire(r.res) = TruncVal(r.y))
               ELSE IF r.T = c THEN SameF(r.res, r.y)
               ELSE IF r.y.cls # "fin" THEN SameF(r.res, r.y)
               ELSE LET rr == RoundRNE(r.T, ym, ye) IN
                    (~rr.ok) \/ (r.res.cls = "fin" /\ r.res.s = r.y.s /\ FromWire(r.res.m) = rr.m /\ r.res.e = rr.e)
  IN [ok |-> /\ (r.lossy = 0) => (r.ub = 0 /\ resok /\ (finx => IsFin(r.y)))
             /\ (comfy /\ ~IsFloatRep(r.S) /\ r.lossy = 0) => bandok               \* integral source: value x factor, to a few ulps
             /\ (tint /\ ~castok) => (r.lossy = 1)                                 \* not castable => lossy
             /\ (finx /\ emant.s # 0 /\ ClearlyAboveMax(c, emant, xe, d)) => (r.lossy = 1)
             /\ (~IsFloatRep(r.S) /\ IsFloatRep(r.T) /\ r.ovf = 1) => ~ClearlyBelowMax(c, emant, xe, d)
             /\ (r.lossy = 1) = (r.ovf = 1 \/ r.trunc = 1),
      comfy |-> comfy, castok |-> castok, resok |-> resok, bandok |-> bandok]

(* C04, floating reps (same-rep checker forms; fields ovf0/trunc0/lossy0 of records with S = T):         *)
(* overflow is reported for every finite value whose scaled magnitude exceeds the largest finite value     *)
(* (observable: the conversion's own product is not finite, or the exact value is clearly beyond max), and *)
(* never for values safely below it.                                                                       *)
VerdictSameF(r) ==
  LET n == FromWire(r.N)  d == FromWire(r.D)
      emant == Mul(SMant(r.x), n)  xe == FExp(r.x)
      finx == IsFin(r.x)
      exceeds == finx /\ emant.s # 0 /\ (ClearlyAboveMax(r.S, emant, xe, d) \/ ~IsFin(r.y))
      safely == finx /\ (emant.s = 0 \/ ClearlyBelowMax(r.S, emant, xe, d))
  IN [ok |-> /\ exceeds => (r.ovf0 = 1)
             /\ safely => (r.ovf0 = 0)
             /\ (r.lossy0 = 1) = (r.ovf0 = 1 \/ r.trunc0 = 1),
      exceeds |-> exceeds, safely |-> safely]
=============================================================================
