-------------------------- MODULE CommonPointUnit --------------------------
(***************************************************************************)
(* CommonPointUnitT<Us...> (unit_of_measure.hh:700-800):                   *)
(*   FlatSort (same ordered, de-duplicated list as CommonUnit),            *)
(*   CommonOrigin: right fold picking the smaller origin (tie: smaller     *)
(*     native count),                                                       *)
(*   Mag = CommonMagnitude(mags of the inputs, unit magnitudes of the       *)
(*     displacements from the common origin to each input's origin),       *)
(*   FirstMatchingUnit<AreUnitsPointEquivalent>.                            *)
(* An origin is a quantity: count * (unit with magnitude ou).               *)
(* Property level (C10): converting a point from input i to the common     *)
(* point unit is x |-> a*x + b with a a positive integer and b a           *)
(* non-negative integer; result independent of order and repetition; an    *)
(* input is returned whenever one already has that scale and origin.       *)
(***************************************************************************)
EXTENDS CommonUnit
CONSTANT Org         \* unit id -> [c |-> count, u |-> magnitude pack of the origin quantity's unit]  (c = 0: no origin member)

(* exact value of a rational magnitude pack with small bases: <<num, den>> (keys are 2*prime) *)
RECURSIVE PackNum(_), PackDen(_)
PackNum(p) == IF p = <<>> THEN 1 ELSE (IF Head(p).e[1] > 0 THEN (Head(p).b \div 2) ^ Head(p).e[1] ELSE 1) * PackNum(Tail(p))
PackDen(p) == IF p = <<>> THEN 1 ELSE (IF Head(p).e[1] < 0 THEN (Head(p).b \div 2) ^ (-Head(p).e[1]) ELSE 1) * PackDen(Tail(p))
PackVal(p) == RNorm(PackNum(p), PackDen(p))
RSub(p, q) == RAdd(p, <<-q[1], q[2]>>)
RDiv(p, q) == IF q[1] > 0 THEN RNorm(p[1] * q[2], p[2] * q[1]) ELSE RNorm(-p[1] * q[2], -p[2] * q[1])
RIsInt(p) == p[2] = 1

RECURSIVE OrgOfR(_)
OrgOfR(u) == IF u.k = "named" THEN Org[u.id] ELSE OrgOfR(u.u)
OriginVal(u) == RMul(<<OrgOfR(u).c, 1>>, PackVal(OrgOfR(u).u))
HasOrigin(u) == OrgOfR(u).c # 0

(* CommonOrigin<Head, Tail...> as a right fold; returns the index of the unit whose origin member is used *)
RECURSIVE CommonOriginIdx(_,_)
CommonOriginIdx(lst, i) ==
  IF i = Len(lst) THEN i
  ELSE LET t == CommonOriginIdx(lst, i + 1) IN
       IF RLess(OriginVal(lst[i]), OriginVal(lst[t])) THEN i
       ELSE IF RLess(OriginVal(lst[t]), OriginVal(lst[i])) THEN t
       ELSE IF OrgOfR(lst[i]).c < OrgOfR(lst[t]).c THEN i ELSE t
(* unit magnitude of the displacement quantity origin(u) - origin(c): Zero when equal, else the common unit of the two. *)
(* Optional magnitudes are records [z |-> TRUE] (Zero) or [z |-> FALSE, m |-> pack].                                      *)
ZeroM == [z |-> TRUE, m |-> <<>>]
SomeM(p) == [z |-> FALSE, m |-> p]
DispMags(lst, ci) == LET c == lst[ci] IN
  [i \in 1..Len(lst) |-> IF OriginVal(lst[i]) = OriginVal(c) THEN ZeroM
                         ELSE IF ~HasOrigin(lst[i]) THEN SomeM(OrgOfR(c).u) ELSE IF ~HasOrigin(c) THEN SomeM(OrgOfR(lst[i]).u)
                         ELSE SomeM(CommonMag(OrgOfR(lst[i]).u, OrgOfR(c).u))]
RECURSIVE FoldCM(_,_)
FoldCM(ms, acc) == IF ms = <<>> THEN acc
                   ELSE FoldCM(Tail(ms), IF Head(ms).z THEN acc ELSE IF acc.z THEN Head(ms) ELSE SomeM(CommonMag(Head(ms).m, acc.m)))
CPMag(lst) == LET ci == CommonOriginIdx(lst, 1)
                  odm == FoldCM(DispMags(lst, ci), ZeroM)
                  um == FoldCM([i \in 1..Len(lst) |-> SomeM(MagOf(lst[i]))], ZeroM)
              IN IF odm.z THEN um.m ELSE CommonMag(um.m, odm.m)
CPOrigin(lst) == OriginVal(lst[CommonOriginIdx(lst, 1)])
PointEquiv(a, sc, oc) == MagOf(a) = sc /\ OriginVal(a) = oc
(* the resulting type: an input that is point-equivalent to the result (first in list order), else the CommonPointUnit<...> itself *)
CPAlgo(us) == LET lst == FlatSort(us)  sc == CPMag(lst)  oc == CPOrigin(lst) IN
              IF \E i \in 1..Len(lst) : PointEquiv(lst[i], sc, oc)
              THEN lst[CHOOSE i \in 1..Len(lst) : PointEquiv(lst[i], sc, oc) /\ \A j \in 1..(i - 1) : ~PointEquiv(lst[j], sc, oc)]
              ELSE [k |-> "cpoint", us |-> lst]
CPScale(us) == CPMag(FlatSort(us))
CPOrig(us) == CPOrigin(FlatSort(us))
(* the affine map input i -> common point unit:  x |-> A*x + B *)
CoefA(us, i) == RDiv(PackVal(MagOf(us[i])), PackVal(CPScale(us)))
CoefB(us, i) == RDiv(RSub(OriginVal(us[i]), CPOrig(us)), PackVal(CPScale(us)))
=============================================================================
