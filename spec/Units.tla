------------------------------- MODULE Units -------------------------------
(***************************************************************************)
(* The unit-type algebra of Au (packs.hh, dimension.hh, magnitude.hh,       *)
(* unit_of_measure.hh, prefix.hh) as term rewriting over explicit unit      *)
(* types, next to an independent denotation by exponent maps.               *)
(*                                                                         *)
(* Implementation shaped:  PackProd (ordered merge with exponent addition   *)
(* and cancellation), PackPow, StdPackOrder, the ordering gauntlet UCmp     *)
(* (avoidance, dimension, magnitude, scale factor, origin, product order),  *)
(* UnpackIfSolo, ScaledUnit folding, prefixes as named scaled units.        *)
(* Property level (C02): Den* -- unordered exponent maps with pointwise     *)
(* arithmetic; an expression's dimension and magnitude are its denotation,  *)
(* quantity-equivalence is equality of denotations, and AC-equal pure       *)
(* products/powers have the identical normal form.                          *)
(***************************************************************************)
EXTENDS Integers, Sequences, FiniteSets, TLC
CONSTANTS Cat,   \* unit id -> [dim, mag, origin]  (extracted from the working tree)
          Pre    \* prefix id -> magnitude pack

(***************************************************************************)
(* Rational exponents <<n,d>>, d > 0, lowest terms                          *)
(***************************************************************************)
Abs(x) == IF x < 0 THEN -x ELSE x
RECURSIVE GcdN(_,_)
GcdN(a,b) == IF b = 0 THEN a ELSE GcdN(b, a % b)
RNorm(n,d) == LET g == GcdN(Abs(n), d) IN IF n = 0 THEN <<0,1>> ELSE <<n \div g, d \div g>>
RAdd(p,q) == RNorm(p[1]*q[2] + q[1]*p[2], p[2]*q[2])
RMul(p,q) == RNorm(p[1]*q[1], p[2]*q[2])
RLess(p,q) == p[1]*q[2] < q[1]*p[2]
RZero(p) == p[1] = 0

(***************************************************************************)
(* Generic packs: sequences of [b |-> base, e |-> exp]                      *)
(* baseLess is a 2-place operator giving the strict order on bases          *)
(***************************************************************************)
RECURSIVE PackProd(_,_,_), StdPackOrder(_,_,_), UCmp(_,_), BaseLess(_,_,_)
BaseLess(mode, a, b) == IF mode = "int" THEN a < b ELSE UCmp(a,b) = "lt"
PackProd(p, q, baseLess) ==
  IF p = <<>> THEN q ELSE IF q = <<>> THEN p ELSE
  LET h1 == Head(p) h2 == Head(q) IN
  IF BaseLess(baseLess, h1.b, h2.b) THEN <<h1>> \o PackProd(Tail(p), q, baseLess)
  ELSE IF BaseLess(baseLess, h2.b, h1.b) THEN <<h2>> \o PackProd(Tail(q), p, baseLess)
  ELSE LET s == RAdd(h1.e, h2.e) IN
       IF RZero(s) THEN PackProd(Tail(p), Tail(q), baseLess)
       ELSE <<[b |-> h1.b, e |-> s]>> \o PackProd(Tail(q), Tail(p), baseLess)

PackPow(p, r) == IF RZero(r) THEN <<>> ELSE [i \in 1..Len(p) |-> [b |-> p[i].b, e |-> RMul(p[i].e, r)]]

StdPackOrder(p, q, baseLess) ==
  IF p = <<>> THEN q # <<>> ELSE IF q = <<>> THEN FALSE ELSE
  IF p = q THEN FALSE ELSE
  LET h1 == Head(p) h2 == Head(q) IN
  IF BaseLess(baseLess, h1.b, h2.b) THEN TRUE ELSE IF BaseLess(baseLess, h2.b, h1.b) THEN FALSE
  ELSE IF RLess(h1.e, h2.e) THEN TRUE ELSE IF RLess(h2.e, h1.e) THEN FALSE
  ELSE StdPackOrder(Tail(p), Tail(q), baseLess)

(***************************************************************************)
(* Dimensions: bases are integers (base_dim_index); Magnitudes: bases are   *)
(* keys 2*p for prime p, 7 for pi (3 < pi < 5)                              *)
(***************************************************************************)
IntLess == "int"
ULessMode == "unit"
DimProd(p,q) == PackProd(p,q,IntLess)
MagProd(p,q) == PackProd(p,q,IntLess)
One == <<1,1>>
BP(b,n,d) == [b |-> b, e |-> <<n,d>>]

(***************************************************************************)
(* Unit types                                                               *)
(*  named:  [k |-> "named", id |-> STRING]                                  *)
(*  scaled: [k |-> "scaled", u |-> unit, m |-> magpack]                     *)
(*  prod:   [k |-> "prod", bps |-> Seq([b |-> unit, e |-> rat])]            *)
(*  pow:    [k |-> "pow", u |-> unit, e |-> rat]   (solo power, unpacked)   *)
(***************************************************************************)

Named(id) == [k |-> "named", id |-> id]

(* CommonMagnitude (magnitude.hh:688-727): ordered merge keeping, per base, the smaller exponent, where a   *)
(* base absent from one side counts as exponent 0 (so only negative exponents of one-sided bases survive)  *)
RECURSIVE CommonMag(_,_)
NegOnly(p) == SelectSeq(p, LAMBDA x : x.e[1] < 0)
CommonMag(p, q) ==
  IF p = <<>> THEN NegOnly(q) ELSE IF q = <<>> THEN NegOnly(p) ELSE
  LET h1 == Head(p)  h2 == Head(q) IN
  IF h1.b < h2.b THEN (IF h1.e[1] < 0 THEN <<h1>> ELSE <<>>) \o CommonMag(Tail(p), q)
  ELSE IF h2.b < h1.b THEN (IF h2.e[1] < 0 THEN <<h2>> ELSE <<>>) \o CommonMag(Tail(q), p)
  ELSE (IF RLess(h1.e, h2.e) THEN <<h1>> ELSE <<h2>>) \o CommonMag(Tail(p), Tail(q))

RECURSIVE DimOf(_), MagOf(_), DimOfBps(_), MagOfBps(_), CommonMagOfList(_)
DimOf(u) == CASE u.k = "named"  -> Cat[u.id].dim
              [] u.k = "pref"   -> DimOf(u.u)
              [] u.k = "scaled" -> DimOf(u.u)
              [] u.k = "pow"    -> PackPow(DimOf(u.u), u.e)
              [] u.k = "prod"   -> DimOfBps(u.bps)
              [] u.k = "common" -> DimOf(u.us[1])
DimOfBps(bps) == IF bps = <<>> THEN <<>> ELSE DimProd(PackPow(DimOf(Head(bps).b), Head(bps).e), DimOfBps(Tail(bps)))
MagOf(u) == CASE u.k = "named"  -> Cat[u.id].mag
              [] u.k = "pref"   -> MagProd(MagOf(u.u), Pre[u.p])
              [] u.k = "scaled" -> MagProd(MagOf(u.u), u.m)
              [] u.k = "pow"    -> PackPow(MagOf(u.u), u.e)
              [] u.k = "prod"   -> MagOfBps(u.bps)
              [] u.k = "common" -> CommonMagOfList(u.us)
CommonMagOfList(us) == IF Len(us) = 1 THEN MagOf(us[1]) ELSE CommonMag(MagOf(us[1]), CommonMagOfList(Tail(us)))
MagOfBps(bps) == IF bps = <<>> THEN <<>> ELSE MagProd(PackPow(MagOf(Head(bps).b), Head(bps).e), MagOfBps(Tail(bps)))
RECURSIVE OriginOf(_)
OriginOf(u) == IF u.k = "named" THEN Cat[u.id].origin ELSE IF u.k \in {"scaled", "pref"} THEN OriginOf(u.u) ELSE <<0,1>>

Avoid(u) == CASE u.k \in {"named", "pref"} -> 0 [] u.k = "prod" -> 1 [] u.k = "scaled" -> 3
              [] u.k = "pow" -> (IF u.e[2] = 1 THEN 4 ELSE 5) [] u.k = "common" -> 6

(* The gauntlet.  Returns "lt", "gt", or "broken" (distinct types compare equal) / "eq" *)
ULess(a,b) == UCmp(a,b) = "lt"
UCmp(a,b) ==
  IF a = b THEN "eq" ELSE
  IF Avoid(a) < Avoid(b) THEN "lt" ELSE IF Avoid(b) < Avoid(a) THEN "gt" ELSE
  IF StdPackOrder(DimOf(a), DimOf(b), IntLess) THEN "lt" ELSE IF StdPackOrder(DimOf(b), DimOf(a), IntLess) THEN "gt" ELSE
  IF StdPackOrder(MagOf(a), MagOf(b), IntLess) THEN "lt" ELSE IF StdPackOrder(MagOf(b), MagOf(a), IntLess) THEN "gt" ELSE
  IF a.k = "scaled" /\ b.k = "scaled" /\ StdPackOrder(a.m, b.m, IntLess) THEN "lt" ELSE
  IF a.k = "scaled" /\ b.k = "scaled" /\ StdPackOrder(b.m, a.m, IntLess) THEN "gt" ELSE
  IF RLess(OriginOf(b), OriginOf(a)) THEN "lt" ELSE IF RLess(OriginOf(a), OriginOf(b)) THEN "gt" ELSE
  IF a.k = "prod" /\ b.k = "prod" /\ StdPackOrder(a.bps, b.bps, ULessMode) THEN "lt" ELSE
  IF a.k = "prod" /\ b.k = "prod" /\ StdPackOrder(b.bps, a.bps, ULessMode) THEN "gt" ELSE
  "broken"

(* UnitProductT / UnitPowerT with UnpackIfSolo and SimplifyBasePowers *)
AsBps(u) == IF u.k = "prod" THEN u.bps ELSE IF u.k = "pow" THEN <<[b |-> u.u, e |-> u.e]>> ELSE <<[b |-> u, e |-> One]>>
Unpack(bps) == IF Len(bps) = 1 THEN (IF bps[1].e = One THEN bps[1].b ELSE [k |-> "pow", u |-> bps[1].b, e |-> bps[1].e])
               ELSE [k |-> "prod", bps |-> bps]
UMul(a,b) == Unpack(PackProd(AsBps(a), AsBps(b), ULessMode))
UPow(a,r) == Unpack(PackPow(AsBps(a), r))
UDiv(a,b) == UMul(a, UPow(b, <<-1,1>>))
UScale(u,m) == IF m = <<>> THEN u ELSE IF u.k = "scaled" THEN (LET mm == MagProd(u.m, m) IN IF mm = <<>> THEN u.u ELSE [k |-> "scaled", u |-> u.u, m |-> mm])
               ELSE [k |-> "scaled", u |-> u, m |-> m]

(***************************************************************************)
(* Expressions and their denotation                                         *)
(***************************************************************************)
RECURSIVE TypeNF(_), DenDim(_), DenMag(_)
TypeNF(e) == CASE e.op = "unit" -> Named(e.id)
               [] e.op = "mul" -> UMul(TypeNF(e.l), TypeNF(e.r))
               [] e.op = "div" -> UDiv(TypeNF(e.l), TypeNF(e.r))
               [] e.op = "pow" -> UPow(TypeNF(e.x), e.r)
               [] e.op = "scale" -> UScale(TypeNF(e.x), e.m)
               [] e.op = "prefix" -> [k |-> "pref", p |-> e.p, u |-> TypeNF(e.x)]
\* independent denotation: fold exponent maps with a *set-based* (unordered) representation
Bases(p) == {p[i].b : i \in 1..Len(p)}
ExpIn(p, b) == IF \E i \in 1..Len(p) : p[i].b = b THEN (LET i == CHOOSE i \in 1..Len(p) : p[i].b = b IN p[i].e) ELSE <<0,1>>
MapOf(p) == [b \in Bases(p) |-> ExpIn(p, b)]
MapMul(f,g) == LET D == DOMAIN f \cup DOMAIN g
                   h == [b \in D |-> RAdd(IF b \in DOMAIN f THEN f[b] ELSE <<0,1>>, IF b \in DOMAIN g THEN g[b] ELSE <<0,1>>)]
               IN [b \in {x \in D : ~RZero(h[x])} |-> h[b]]
MapPow(f,r) == IF RZero(r) THEN [b \in {} |-> <<0,1>>] ELSE [b \in DOMAIN f |-> RMul(f[b], r)]
DenDim(e) == CASE e.op = "unit" -> MapOf(Cat[e.id].dim)
               [] e.op = "mul" -> MapMul(DenDim(e.l), DenDim(e.r))
               [] e.op = "div" -> MapMul(DenDim(e.l), MapPow(DenDim(e.r), <<-1,1>>))
               [] e.op = "pow" -> MapPow(DenDim(e.x), e.r)
               [] e.op = "scale" -> DenDim(e.x)
               [] e.op = "prefix" -> DenDim(e.x)
DenMag(e) == CASE e.op = "unit" -> MapOf(Cat[e.id].mag)
               [] e.op = "mul" -> MapMul(DenMag(e.l), DenMag(e.r))
               [] e.op = "div" -> MapMul(DenMag(e.l), MapPow(DenMag(e.r), <<-1,1>>))
               [] e.op = "pow" -> MapPow(DenMag(e.x), e.r)
               [] e.op = "scale" -> MapMul(DenMag(e.x), MapOf(e.m))
               [] e.op = "prefix" -> MapMul(DenMag(e.x), MapOf(Pre[e.p]))

(* expressions free of "scale": products / quotients / powers of named (or prefixed) units *)
RECURSIVE IsPure(_)
IsPure(e) == CASE e.op = "unit" -> TRUE
               [] e.op \in {"mul", "div"} -> IsPure(e.l) /\ IsPure(e.r)
               [] e.op = "pow" -> IsPure(e.x)
               [] e.op = "prefix" -> IsPure(e.x)
               [] OTHER -> FALSE
(* does building the type of e ever compare two distinct unit types the gauntlet cannot separate?  *)
(* (documented limitation "broken strict total ordering": such programs are outside C02/C07)       *)
RECURSIVE BpsBroken(_,_), Broken(_)
BpsBroken(p, q) == \E i \in 1..Len(p), j \in 1..Len(q) : UCmp(p[i].b, q[j].b) = "broken"
Broken(e) == CASE e.op = "unit" -> FALSE
               [] e.op \in {"mul", "div"} -> Broken(e.l) \/ Broken(e.r) \/ BpsBroken(AsBps(TypeNF(e.l)), AsBps(TypeNF(e.r)))
               [] e.op \in {"pow", "scale", "prefix"} -> Broken(e.x)
=============================================================================
