#!/bin/sh
# Run once after a fresh restore (offline).  Nothing is prebuilt from /repo: checks rebuild what they
# need from the working tree.  This verifies tool presence and that every specification module parses.
set -e
cd "$(dirname "$0")"
for t in java g++ clang++ python3 cmake ninja rsync; do command -v $t >/dev/null || { echo "missing tool: $t"; exit 1; }; done
test -f /opt/veriftools/tla/tla2tools.jar
fail=0
for f in spec/*.tla; do
  if ! java -cp /opt/veriftools/tla/tla2tools.jar:/opt/veriftools/tla/CommunityModules-deps.jar -DTLA-Library=spec tla2sany.SANY "$f" >/tmp/au_verif_sany.$$ 2>&1 || grep -q -e "^\*\*\* Errors" -e "Semantic errors" -e "Parse Error" -e "Fatal errors" /tmp/au_verif_sany.$$; then
    echo "SANY failed on $f"; tail -5 /tmp/au_verif_sany.$$; fail=1
  fi
done
rm -f /tmp/au_verif_sany.$$
mkdir -p evidence replays
exit $fail
