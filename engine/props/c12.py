"""C12: factorisation, primality and modular helpers are exact on all 64-bit inputs."""
import json
import os
import random
import shutil

from .. import core
from ..core import wire_to_int


def int_to_wire(v):
    limbs = []
    m = abs(v)
    while m:
        limbs.append(m % 10000)
        m //= 10000
    return {"s": (1 if v > 0 else (-1 if v < 0 else 0)), "l": limbs}


def run(ctx):
    ctx.rule = ("Layer A: NumberTheory.tla models add_mod, sub_mod, mul_mod (the recursive chunking), half_mod_odd, pow_mod, miller_rabin(2), jacobi, the "
                "strong Lucas test and baillie_psw on a W-bit word with every operation wrap-checked: all (a, b, n) with a, b < n < 2^W for the "
                "helpers, all n < 2^W for primality against trial division.  Layer C: every n below a limit through is_prime and find_prime_factor "
                "against a sieve (comparator), all disagreements, all n < 4096 and a sample judged by TLC; adversarial 64-bit numbers from an "
                "independent generator (primes next to 2^k, prime squares/cubes, semiprimes of factors near 2^16/2^31/2^32, Carmichael numbers, strong "
                "base-2 and strong Lucas pseudoprimes, multi-base pseudoprimes, 2^64-59, 2^64-1) with their factorisation, which TLC re-multiplies and "
                "re-certifies (trial division / deterministic 12-base Miller-Rabin over BigInt) before judging is_prime and the returned factor; "
                "random 64-bit helper operands incl. moduli above 2^63 judged via a*b = q*n + r etc. with the unsigned-wrap sanitizer flag; "
                "mag<a>() * mag<b>() == mag<a*b>() assertions.  Non-trivial = adversarial numbers, numbers below 4096, helper operand triples.")
    ctx.assumptions += ["Baillie-PSW has no known counterexample below 2^64; the check covers what it enumerates", "sympy-generated inputs are inputs only (re-certified by TLC)",
                        "clang's unsigned-integer-overflow instrumentation is the event source for 'no intermediate wrap-around'"]
    quick = ctx.tier == "quick"
    wa = 6 if quick else 8
    a = ctx.tlc("NumberTheory.tla", cfg=ctx.write("MC_NT.cfg", "CONSTANT W = %d\nINIT Init\nNEXT Next\nINVARIANTS MulModExact AddSubExact HalfExact PowExact\n" % wa),
                timeout=3000, name="layerA modular helpers W=%d" % wa, allow_violation=True, xmx="12g")
    if a.violated:
        raise core.ToolError("Layer A: %s fails in NumberTheory.tla\n%s" % (a.violated, "\n".join(a.out.splitlines()[-25:])))
    wp = 12 if quick else 15
    p = ctx.tlc("MC_Primality.tla", cfg=ctx.write("MC_Prim.cfg", "CONSTANT W = %d\nINIT InitP\nNEXT Next\nINVARIANT PrimalityExact\n" % wp), timeout=3000,
                name="layerA primality W=%d" % wp, allow_violation=True)
    if p.violated:
        raise core.ToolError("Layer A: PrimalityExact fails\n" + "\n".join(p.out.splitlines()[-25:]))
    ctx.layers["A"] = {"module": "NumberTheory.tla", "helpers_word_bits": wa, "helper_triples": a.distinct, "primality_word_bits": wp, "primality_inputs": p.distinct, "exhaustive": True}
    # adversarial inputs
    adv = ctx.path("adversarial.txt")
    rc, out = core.sh(["python3-vt", os.path.join(core.VERIF, "tools", "adversarial.py"), str(ctx.seed), ctx.tier], timeout=900)
    if rc != 0 or not out.strip():
        out = open(os.path.join(core.VERIF, "tools", "adversarial_fallback.txt")).read()
        ctx.notes.append("sympy generator unavailable; used the committed fallback list")
    wit = {}
    with open(adv, "w") as f:
        for line in out.splitlines():
            parts = line.split()
            if len(parts) >= 2 and parts[0].isdigit():
                wit[parts[0]] = parts[1:]
                f.write(parts[0] + "\n")
    limit = 1 << (20 if quick else 26)
    src = os.path.join(core.HARNESS, "nt_sweep.cc")
    obs, sums = [], []
    cfgs = ["c20", "g14"] if quick else ["c20", "g14", "c14", "g20"]
    for cfg in cfgs:
        exe = ctx.path("nt_" + cfg)
        if cfg.startswith("c"):
            rc, o = ctx.cxx_ubsan(src, exe, cfg=cfg, opt="-O2", defines=["AUV_CALL_TIMEOUT=20"])
        else:
            rc, o = ctx.cxx(src, exe, cfg=cfg, opt="-O2", flags=[os.path.join(core.HARNESS, "noub.cc")], defines=["AUV_CALL_TIMEOUT=20"])
        if rc != 0:
            errs = "\n".join([l for l in o.splitlines() if "error" in l][:4])
            if core.first_error_in_au(errs):
                ctx.violation({"kind": "rejected"}, "the number-theory utilities do not compile [%s]: %s" % (cfg, errs[:400]), detail=errs)
                continue
            raise core.ToolError("nt harness does not compile: " + errs)
        recs = ctx.run_ndjson(exe, [str(limit if cfg == cfgs[0] else min(limit, 1 << 18)), str(ctx.seed), adv, "1200" if quick else "60000"], timeout=6000)
        ctx.programs += 1
        for r in recs:
            r["cfg"] = cfg
            if r["k"] == "crash":
                ctx.violation({"crash": r["inflight"]}, ("no return within the watchdog time from %s [%s]" % (r["inflight"], cfg)) if r["sig"] == 14
                              else ("fatal signal %d inside %s [%s]" % (r["sig"], r["inflight"], cfg)), detail=r)
            elif r["k"] == "ntsum":
                sums.append(r)
            elif r["k"] == "adv":
                obs.append({"k": "np", "n": int_to_wire(int(r["n"])), "isp": r["isp"], "factor": r["factor"], "witness": [int_to_wire(int(x)) for x in wit[r["n"]]], "cfg": cfg, "nn": r["n"]})
            else:
                obs.append(r)
    ctx.evaluations += sum(s["n"] for s in sums) + len(obs)
    nval, bad = ctx.tlc_batch_validate("Trace_NT.tla", obs, name="nt", shards=core.NCPU, timeout=3000)
    badset = set()
    for b in bad:
        r = b["rec"]
        if r["k"] == "np":
            ctx.violation({"kind": "is_prime/find_prime_factor", "n": r["nn"]}, "n = %s (prime factors %s): is_prime = %d, find_prime_factor = %d [%s]" % (
                r["nn"], [wire_to_int(w) for w in r["witness"]], r["isp"], wire_to_int(r["factor"]), r["cfg"]), detail=b)
        elif r["k"] == "small":
            badset.add((r["n"], r["cfg"]))
            ctx.violation({"kind": "is_prime/find_prime_factor", "n": str(r["n"])}, "n = %d: is_prime = %d, find_prime_factor = %d [%s]" % (r["n"], r["isp"], r["factor"], r["cfg"]), detail=b)
        else:
            vals = {k: wire_to_int(v) for k, v in r.items() if isinstance(v, dict)}
            ctx.violation(dict({"kind": r["k"] + "_mod"}, **{k: str(v) for k, v in vals.items() if k in ("a", "b", "n")}), "%s_mod%s: %s, wrap-around flag %d [%s]" % (
                r["k"], "_odd" if r["k"] == "half" else "", vals, r["wrap"], r["cfg"]), detail=b)
    for r in obs:
        if r["k"] == "small" and r.get("why") == "mismatch" and (r["n"], r["cfg"]) not in badset:
            raise core.ToolError("sieve comparator mismatch not confirmed by TLC: %s" % r)
    for s in sums:
        if s["mismatches"] > 50:
            ctx.violation({"kind": "sieve", "cfg": s["cfg"]}, "%d numbers below %d disagree with the sieve [%s]" % (s["mismatches"], s["n"], s["cfg"]), detail=s)
    # (v) mag<a>() * mag<b>() == mag<a*b>()
    rnd = random.Random(ctx.seed)
    pairs = [(2, 3), (4, 6), (12, 18), (65536, 65536), (4294967291, 4294967279), (1000000007, 998244353), (2147483647, 2147483647), (3, 6148914691236517205), (1, 18446744073709551557), (641, 6700417),
             (4294967296, 4294967295), (999999999989, 18446707), (7, 2635249153387078802)]
    pairs += [(rnd.getrandbits(rnd.choice((8, 16, 24, 31))) + 2, rnd.getrandbits(rnd.choice((8, 16, 24, 32))) + 2) for _ in range(20 if quick else 120)]
    L = ['#include "au/au.hh"', "using namespace au;"]
    for i, (x, y) in enumerate(pairs):
        if x * y < 2 ** 64:
            L.append('static_assert(mag<%dULL>() * mag<%dULL>() == mag<%dULL>(), "m%d product");' % (x, y, x * y, i))
            L.append('static_assert(std::is_same<decltype(mag<%dULL>() * mag<%dULL>()), decltype(mag<%dULL>())>::value, "m%d identical type");' % (x, y, x * y, i))
            L.append('static_assert(mag<%dULL>() / mag<%dULL>() == mag<%dULL>(), "m%d quotient");' % (x * y, y, x, i))
    srcm = ctx.write("magprod.cc", "\n".join(L) + "\nint main() {}\n")
    import re
    for cfg in cfgs[:2]:
        try:
            rc, o = ctx.cxx(srcm, cfg=cfg, syntax_only=True, opt="-O0", timeout=400,
                            flags=(["-ferror-limit=0", "-fconstexpr-steps=400000000"] if cfg.startswith("c") else ["-fmax-errors=0", "-fconstexpr-ops-limit=400000000"]))
        except core.ToolError:
            ctx.notes.append("mag<> product assertions: compiler did not finish within 400 s [%s]" % cfg)
            continue
        ctx.programs += 1
        if rc != 0 and ("maximum step limit" in o or "operation count exceeds limit" in o):
            ctx.notes.append("mag<> factorisation hit the compiler's constexpr step limit [%s]; such N are outside 'whenever it compiles'" % cfg)
        elif rc != 0:
            hits = set(re.findall(r'"?m(\d+) (product|identical type|quotient)', o))
            errs = [l for l in o.splitlines() if "error" in l]
            for k, what in hits:
                ctx.violation({"kind": "mag " + what, "a": str(pairs[int(k)][0]), "b": str(pairs[int(k)][1])}, "mag<%d>() * mag<%d>() vs mag<%d>(): %s fails [%s]" % (pairs[int(k)][0], pairs[int(k)][1], pairs[int(k)][0] * pairs[int(k)][1], what, cfg), detail=None)
            if not hits:
                if any("limit" in l for l in errs):
                    ctx.notes.append("mag<> factorisation hit a constexpr step limit [%s]" % cfg)
                elif core.first_error_in_au(errs):
                    ctx.violation({"kind": "mag rejected"}, "mag<N>() does not compile [%s]: %s" % (cfg, "\n".join(errs[:3])[:400]), detail=errs[:6])
                else:
                    raise core.ToolError("mag product TU does not compile: " + "\n".join(errs[:5]))
    ctx.nontrivial = len([o for o in obs if o["cfg"] == cfgs[0]])
    for o in [x for x in obs if x["k"] == "np"][:2] + [x for x in obs if x["k"] == "mul"][:1] + [x for x in obs if x["k"] == "small"][:1]:
        ctx.sample({k: (wire_to_int(v) if isinstance(v, dict) else ([wire_to_int(w) for w in v] if isinstance(v, list) else v)) for k, v in o.items()})
    ctx.layers["C"] = {"sieve_limit": limit, "adversarial_numbers": len(wit), "records_validated_by_TLC": nval, "mag_product_pairs": len(pairs), "configs": cfgs}
