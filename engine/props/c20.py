"""C20: behaviour is independent of packaging, language standard and compiler."""
import hashlib
import json
import os
import random
import re
import shutil

from .. import core

API_UNITS = ["celsius", "degrees", "feet", "hertz", "hours", "inches", "kelvins", "meters", "minutes", "radians", "seconds"]
API_CONSTANTS = ["SPEED_OF_LIGHT"]
REPS = ["int", "double", "int8_t", "uint16_t", "float", "int64_t", "uint8_t", "int16_t", "uint32_t", "uint64_t", "long double"]
PY = "python3"


def digest(s):
    return hashlib.sha1(s.encode()).hexdigest()[:16]


def compile_(comp, std, args, timeout=600):
    rc, o = core.sh([comp, "-std=" + std] + args, timeout=timeout)
    if rc == 124:
        raise core.ToolError("compiler timeout: %s" % " ".join(args)[-200:])
    return rc, o


def errs_of(o, n=4):
    return "\n".join([l for l in o.splitlines() if "error" in l][:n])


def run(ctx):
    ctx.rule = ("Layer A: SingleFile.tla models make-single-file's parse_files worklist and sort_topologically pass structure over every acyclic include graph on "
                "N files and every selection order: the output holds exactly the include closure, each file once, every file after all of its includes, and the "
                "sort never stalls.  Layer B: every such graph and selection (TLC-emitted) is materialised as a header tree whose function bodies call the "
                "functions of their includes; the REAL parse_files / sort_topologically / print_unified_file run on it; TLC judges closure and order of each run "
                "and the unified text must compile.  Layer C: random selections of the real unit and constant headers x {io, noio} through the real tool: TLC "
                "judges closure/order on the real include graph; each generated file is compiled with only itself on the include path (alone, included twice, "
                "two translation units linked) and an API-surface program per rep class is built against it and against the header tree in several "
                "configurations; every public header is compiled on its own and twice; every *_fwd.hh is followed by its definition with each declared name "
                "completed; operator/constructor probes over rep pairs (incl. sub-int reps) are compiled in all six configurations.  TLC judges every record "
                "(Trace_Packaging.tla: verdicts and outputs alike across configurations).  Non-trivial = selections, graphs with at least one edge, probes.")
    ctx.assumptions += ["libm results (sin, hypot) are compared to 10 significant digits, everything else exactly (17 digits)",
                        "the compilers installed here (g++ and clang++ at c++14/17/20) stand for 'gcc and clang'"]
    quick = ctx.tier == "quick"
    rnd = random.Random(ctx.seed)
    repo = core.REPO
    tool = os.path.join(repo, "tools", "bin", "make-single-file")
    driver = os.path.join(core.VERIF, "tools", "sf_driver.py")

    # ---------------------------------------------------------------- Layer A
    n = 4 if quick else 5
    a = ctx.tlc("SingleFile.tla", cfg=ctx.write("MC_SF.cfg", "CONSTANT N = %d\nINIT Init\nNEXT Next\nINVARIANT Correct\nINVARIANT NoStall\nCHECK_DEADLOCK FALSE\n" % n),
                timeout=3000, name="layerA single-file N=%d" % n, allow_violation=True, xmx="16g")
    if a.violated:
        raise core.ToolError("Layer A: %s fails in SingleFile.tla" % a.violated)
    ctx.layers["A"] = {"module": "SingleFile.tla", "files": n, "distinct_states": a.distinct, "exhaustive": True}

    # ---------------------------------------------------------------- Layer B
    g = ctx.tlc("Gen_SingleFile.tla", cfg=ctx.write("Gen_SF.cfg", "CONSTANT N = 4\nINIT Init\nNEXT Next\nINVARIANT EmitG\nCHECK_DEADLOCK FALSE\n"), timeout=3000,
                name="layerB graph cases", count=False, xmx="8g")
    cases = list(g.cases)
    if len(cases) < 1000:
        raise core.ToolError("Gen_SingleFile emitted only %d cases" % len(cases))
    if quick:
        rnd.shuffle(cases)
        cases = cases[:3000]
    cf = ctx.path("graph_cases.ndjson")
    with open(cf, "w") as f:
        for c in cases:
            f.write(json.dumps(c) + "\n")
    work = ctx.path("graphs", "x")
    work = os.path.dirname(work)
    rc, out = core.sh([PY, driver, "graphs", repo, cf, work], timeout=3000)
    recs = [json.loads(l) for l in out.splitlines() if l.startswith("{")]
    if rc != 0 or len(recs) != len(cases):
        raise core.ToolError("graph driver failed (rc=%d, %d of %d runs): %s" % (rc, len(recs), len(cases), "\n".join(out.splitlines()[-6:])))
    recs = tool_errors(ctx, recs, lambda r: "include graph with edges %s, selection %s" % (sorted((e["f"], e["h"]) for e in cases[r["id"]]["edges"]), cases[r["id"]]["sel"]),
                       lambda r: {"kind": "graph", "edges": sorted((e["f"], e["h"]) for e in cases[r["id"]]["edges"]), "sel": cases[r["id"]]["sel"]})
    unified = [r.pop("unified", None) for r in recs]
    nval, bad = ctx.tlc_batch_validate("Trace_SingleFile.tla", recs, name="graphs", shards=core.NCPU, timeout=3000)
    byid = {r["id"]: r for r in recs}
    for b in bad:
        r = byid[b["id"]]
        ctx.violation({"kind": "graph", "edges": sorted((e["f"], e["h"]) for e in cases[r["id"]]["edges"]), "sel": cases[r["id"]]["sel"]},
                      "include graph %s, selection %s: files = %s, output order = %s" % (
                          [(x["f"], x["deps"]) for x in r["graph"]], r["sel"], r["files"], r["ready"]), detail=r)
    drift = sum(1 for r in recs if not (r["pred_files_same"] and r["pred_ready_same"]))
    if drift:
        ctx.model_drift("%d of %d runs order files differently from SingleFile.tla's prediction (order within the property's freedom)" % (drift, len(recs)))
    # the unified text of a sample must compile: every function body calls the functions of its includes
    L = ["#include <cstdint>"]
    sample = [i for i, u in enumerate(unified) if u][: (300 if quick else 3000)]
    for i in sample:
        p = ctx.write("uni/u%d.hh" % i, "// run %d\n" % i + unified[i])      # distinct content: g++ treats identical files as one for #pragma once
        L.append("namespace c%d {\n#include \"%s\"\n}" % (i, p))
        for f in recs[i]["files"]:
            L.append("static_assert(sizeof(&c%d::%s) > 0, \"u%d declares %s\");" % (i, os.path.basename(f)[:-3], i, f))
    if sample:
        src = ctx.write("uni_all.cc", "\n".join(L) + "\nint main() {}\n")
        rc, o = compile_("g++", "c++14", ["-fsyntax-only", "-fmax-errors=0", src])
        ctx.programs += 1
        if rc != 0:
            hit = sorted({int(m) for m in re.findall(r"uni/u(\d+)\.hh", o)} | {int(m) for m in re.findall(r"c(\d+)::", errs_of(o, 50))})
            if not hit:
                raise core.ToolError("unified graph text TU fails: " + errs_of(o))
            for i in hit[:10]:
                ctx.violation({"kind": "graph text", "edges": sorted((e["f"], e["h"]) for e in cases[recs[i]["id"]]["edges"]), "sel": cases[recs[i]["id"]]["sel"]},
                              "the unified file for include graph %s, selection %s does not compile (a file precedes one of its includes, is missing or is repeated)" % (
                                  [(x["f"], x["deps"]) for x in recs[i]["graph"]], recs[i]["sel"]), detail={"text": unified[i], "errors": errs_of(o, 8)})
    ctx.layers["B"] = {"graph_selection_runs": len(recs), "validated_by_TLC": nval, "unified_texts_compiled": len(sample), "order_differs_from_model": drift}
    ctx.evaluations += len(recs)
    nontrivial = sum(1 for c in cases if c["edges"])

    # ---------------------------------------------------------------- Layer C: real selections
    udir = os.path.join(repo, "au", "code", "au", "units")
    cdir = os.path.join(repo, "au", "code", "au", "constants")
    units = sorted(f[:-3] for f in os.listdir(udir) if f.endswith(".hh") and not f.endswith("_fwd.hh"))
    consts = sorted(f[:-3].upper() for f in os.listdir(cdir) if f.endswith(".hh") and not f.endswith("_fwd.hh"))
    nsel = 6 if quick else 48
    sels = [{"units": [], "constants": [], "io": False, "api": False}, {"units": list(units), "constants": list(consts), "io": True, "api": True}]
    while len(sels) < nsel:
        k = rnd.choice([0, 1, 3, 8, len(units) // 2, len(units) - 1])
        api = rnd.random() < 0.75
        us = set(rnd.sample(units, k)) | (set(API_UNITS) if api else set())
        cs = set(rnd.sample(consts, rnd.randint(0, len(consts)))) | (set(API_CONSTANTS) if api else set())
        ul, cl = list(us), list(cs)
        rnd.shuffle(ul)
        rnd.shuffle(cl)
        sels.append({"units": ul, "constants": cl, "io": len(sels) % 2 == 0, "api": api})
    sf = ctx.write("selections.json", json.dumps(sels))
    outdir = os.path.dirname(ctx.path("sf", "x"))
    rc, out = core.sh([PY, driver, "real", repo, sf, outdir], timeout=3000)
    srecs = [json.loads(l) for l in out.splitlines() if l.startswith("{")]
    if rc != 0 or len(srecs) != len(sels):
        raise core.ToolError("real driver failed (rc=%d, %d of %d runs): %s" % (rc, len(srecs), len(sels), "\n".join(out.splitlines()[-6:])))
    srecs = tool_errors(ctx, srecs, lambda r: "selection %s" % json.dumps(sels[r["id"]])[:300],
                        lambda r: {"kind": "real selection", "units": sorted(sels[r["id"]]["units"]), "constants": sorted(sels[r["id"]]["constants"]), "io": sels[r["id"]]["io"]})
    # also through the command line exactly as a user would run it (one selection), from the repository root
    s0 = sels[1]
    rc, cli = core.sh([PY, tool, "--units"] + s0["units"] + ["--constants"] + s0["constants"] + ["--version-id", "verif"], cwd=repo, timeout=600)
    sf1 = os.path.join(outdir, "sf1", "au.hh")
    if rc != 0 or (os.path.exists(sf1) and cli != open(sf1).read()):
        if rc != 0:
            ctx.violation({"kind": "cli"}, "tools/bin/make-single-file --units ... --constants ... exits %d: %s" % (rc, cli[-300:]), detail=cli[-2000:])
        else:
            raise core.ToolError("command-line output differs from main() called in-process")
    sby = {r["id"]: r for r in srecs}
    nv, bad = ctx.tlc_batch_validate("Trace_SingleFile.tla", [{k: r[k] for k in ("id", "sel", "graph", "files", "ready")} for r in srecs], name="real", shards=min(core.NCPU, len(srecs)), timeout=3000)
    for b in bad:
        r = sby[b["id"]]
        ctx.violation({"kind": "real selection", "units": sorted(sels[r["id"]]["units"]), "constants": sorted(sels[r["id"]]["constants"]), "io": sels[r["id"]]["io"]},
                      "selection %s: the generated order/closure is wrong: files %d, ready %s ..." % (json.dumps(sels[r["id"]])[:300], len(r["files"]), r["ready"][:8]), detail=r)

    cfgs_sf = ["g14", "c20"] if quick else core.ALL_CONFIGS
    jobs = []
    for r in srecs:
        s = sels[r["id"]]
        d = r["dir"]
        open(os.path.join(d, "t_alone.cc"), "w").write('#include "au.hh"\nint main() { return au::ZERO == au::ZERO ? 0 : 1; }\n')
        open(os.path.join(d, "t_twice.cc"), "w").write('#include "au.hh"\n#include "au.hh"\nint main() { return 0; }\n')
        open(os.path.join(d, "t_a.cc"), "w").write('#include "au.hh"\nint fa() { return sizeof(au::Zero); }\n')
        open(os.path.join(d, "t_b.cc"), "w").write('#include "au.hh"\nint fa();\nint main() { return fa() == int(sizeof(au::Zero)) ? 0 : 1; }\n')
        for cfg in cfgs_sf:
            jobs.append(("self", r["id"], cfg, None))
        # every name the selected headers define must be usable, with the same meaning, through the single file
        names = []
        for h in ["au/units/%s.hh" % u for u in s["units"]] + ["au/constants/%s.hh" % c.lower() for c in s["constants"]]:
            text = open(os.path.join(repo, "au", "code", h)).read()
            names += [(m, "q") for m in re.findall(r"^constexpr auto (\w+) = QuantityMaker<", text, re.M)]
            names += [(m, "c") for m in re.findall(r"^constexpr auto (\w+) =\s*make_constant\(", text, re.M)]
        L = ["#ifdef AUV_SINGLE_FILE", '#include "au.hh"', "#else", '#include "au/au.hh"'] + ['#include "au/units/%s.hh"' % u for u in s["units"]] + \
            ['#include "au/constants/%s.hh"' % c.lower() for c in s["constants"]] + (['#include "au/io.hh"'] if s["io"] else []) + ["#endif", "#include <cstdio>", "int main() {"]
        for nm, kind in sorted(set(names)):
            if kind == "q":
                L.append('    std::printf("%s %%s %%d\\n", au::unit_label(decltype(au::%s(1))::unit), (int)sizeof(au::%s(1.0)));' % (nm, nm, nm))
            else:
                L.append('    std::printf("%s %%s\\n", au::unit_label(au::AssociatedUnitT<decltype(au::%s)>{}));' % (nm, nm))
        open(os.path.join(d, "t_uses.cc"), "w").write("\n".join(L + ["    return 0;", "}"]) + "\n")
        for mode in ("single", "tree"):
            jobs.append(("uses", r["id"], cfgs_sf[r["id"] % len(cfgs_sf)], mode))
        if s["api"]:
            reps = [REPS[(r["id"] + j) % len(REPS)] for j in ((0, 5) if quick else (0, 3, 5, 8))]
            for cfg in cfgs_sf:
                for rep in reps:
                    jobs.append(("api", r["id"], cfg, rep))
    # the same API program against the header tree, every rep class, every configuration
    for cfg in core.ALL_CONFIGS:
        for rep in REPS:
            for io in (True, False):
                if io or cfg in cfgs_sf:
                    jobs.append(("tree", -1, cfg, (rep, io)))
    api_src = os.path.join(core.HARNESS, "api_surface.cc")

    def do(job):
        kind, sid, cfg, arg = job
        comp, std = core.CONFIGS[cfg]
        if kind == "self":
            d = sby[sid]["dir"]
            base = ["-O0", "-I" + d]          # nothing else of Au is reachable
            res = {}
            rc1, o1 = compile_(comp, std, base + ["-fsyntax-only", os.path.join(d, "t_alone.cc")])
            rc2, o2 = compile_(comp, std, base + ["-fsyntax-only", os.path.join(d, "t_twice.cc")])
            exe = os.path.join(d, "t_%s" % cfg)
            rc3, o3 = compile_(comp, std, base + [os.path.join(d, "t_a.cc"), os.path.join(d, "t_b.cc"), "-o", exe])
            if rc3 == 0:
                rc3, o3 = core.sh([exe], timeout=60)
            res = {"alone": int(rc1 == 0), "twice": int(rc2 == 0), "linked": int(rc3 == 0), "diag": errs_of(o1 + o2 + o3)}
            return job, res
        if kind == "uses":
            d = sby[sid]["dir"]
            exe = os.path.join(d, "uses_%s" % arg)
            rc, o = compile_(comp, std, ["-O0"] + (["-I" + d, "-DAUV_SINGLE_FILE"] if arg == "single" else ["-I" + os.path.join(repo, "au", "code")]) + [os.path.join(d, "t_uses.cc"), "-o", exe])
        elif kind == "api":
            d = sby[sid]["dir"]
            exe = os.path.join(d, "api_%s_%s" % (cfg, arg.replace(" ", "_")))
            defs = ["-DAUV_SINGLE_FILE", "-DREP=" + arg] + (["-DAUV_WITH_IO"] if sels[sid]["io"] else [])
            rc, o = compile_(comp, std, ["-O0", "-I" + d] + defs + [api_src, "-o", exe])
        else:
            rep, io = arg
            exe = ctx.path("tree", "api_%s_%s_%d" % (cfg, rep.replace(" ", "_"), io))
            defs = ["-DREP=" + rep] + (["-DAUV_WITH_IO"] if io else [])
            rc, o = compile_(comp, std, ["-O0", "-I" + os.path.join(repo, "au", "code")] + defs + [api_src, "-o", exe])
        if rc != 0:
            return job, {"verdict": "rejected", "out": "", "text": "", "diag": errs_of(o)}
        rc, o = core.sh([exe], timeout=120)
        try:
            os.unlink(exe)
        except OSError:
            pass
        return job, {"verdict": "accepted" if rc == 0 else "accepted, exit %d" % rc, "out": digest(o), "text": o, "diag": ""}
    results = ctx.pmap(do, jobs)
    ctx.programs += len(jobs)
    tree = {(j[2], j[3][0], j[3][1]): r for j, r in results if j[0] == "tree"}
    obs = []
    # the API program itself must be a valid program of the tree in the reference configuration (else the harness is wrong, not Au)
    for rep in REPS:
        t = tree[("g14", rep, True)]
        if t["verdict"] != "accepted" and all(tree[(c, rep, True)]["verdict"] != "accepted" for c in core.ALL_CONFIGS):
            if core.first_error_in_au(t["diag"]):
                ctx.violation({"kind": "api program rejected", "rep": rep}, "the API-surface program for rep %s is rejected in every configuration: %s" % (rep, t["diag"][:300]), detail=t["diag"])
            else:
                raise core.ToolError("API-surface program invalid for rep %s: %s" % (rep, t["diag"]))
    rid = 0
    descr = {}
    for rep in REPS:
        for io in (True, False):
            ob = [{"cfg": c, "verdict": tree[(c, rep, io)]["verdict"], "out": tree[(c, rep, io)]["out"]} for c in core.ALL_CONFIGS if (c, rep, io) in tree]
            obs.append({"k": "alike", "id": rid, "obs": ob})
            descr[rid] = ("tree", rep, io, None)
            rid += 1
    for j, r in results:
        if j[0] == "api":
            sid, cfg, rep = j[1], j[2], j[3]
            t = tree[(cfg, rep, sels[sid]["io"])]
            obs.append({"k": "alike", "id": rid, "obs": [{"cfg": cfg + "/tree", "verdict": t["verdict"], "out": t["out"]}, {"cfg": cfg + "/single-file", "verdict": r["verdict"], "out": r["out"]}]})
            descr[rid] = ("sf", rep, sels[sid]["io"], (sid, cfg, r, t))
            rid += 1
    uses = {}
    for j, r in results:
        if j[0] == "uses":
            uses.setdefault(j[1], {})[j[3]] = (j[2], r)
    for sid, d2 in uses.items():
        cfg, t = d2["tree"]
        _, r = d2["single"]
        if t["verdict"] != "accepted":
            if core.first_error_in_au(t["diag"]):
                ctx.violation({"kind": "selected names unusable in the tree", "units": sorted(sels[sid]["units"]), "constants": sorted(sels[sid]["constants"])}, "selection #%d: a program naming every selected unit and constant is rejected against the header tree [%s]: %s" % (sid, cfg, t["diag"][:300]), detail=t["diag"])
                continue
            raise core.ToolError("uses-TU invalid against the tree: " + t["diag"])
        obs.append({"k": "alike", "id": rid, "obs": [{"cfg": cfg + "/tree", "verdict": t["verdict"], "out": t["out"]}, {"cfg": cfg + "/single-file", "verdict": r["verdict"], "out": r["out"]}]})
        descr[rid] = ("sf", "every selected name", sels[sid]["io"], (sid, cfg, r, t))
        rid += 1
    selfres = {}
    for j, r in results:
        if j[0] == "self":
            selfres.setdefault(j[1], {})[j[2]] = r
    for sid, per in selfres.items():
        r = sby[sid]
        rec = {"k": "sf", "id": rid, "left": len(r["project_includes_left"]), "pragmas": r["pragma_once_count"], "code": r["faith"]["code_same"], "incs": r["faith"]["incs_same"],
               "alone": min(x["alone"] for x in per.values()), "twice": min(x["twice"] for x in per.values()), "linked": min(x["linked"] for x in per.values())}
        obs.append(rec)
        descr[rid] = ("self", None, None, (sid, per))
        rid += 1

    # ---------------------------------------------------------------- public headers on their own; *_fwd.hh against definitions
    root = os.path.join(repo, "au", "code")
    hdrs = []
    for dp, dn, fn in os.walk(os.path.join(root, "au")):
        if os.sep + "test" in dp[len(root):]:
            continue
        for f in fn:
            if f.endswith(".hh") and "_test" not in f and f != "testing.hh":
                hdrs.append(os.path.relpath(os.path.join(dp, f), root))
    hdrs.sort()
    cfgs_h = ["g14", "c20"] if quick else core.ALL_CONFIGS
    hjobs = []
    for h in hdrs:
        for cfg in cfgs_h:
            hjobs.append(("hdr", h, cfg))
    for h in hdrs:
        if h.endswith("_fwd.hh") or h == "au/fwd.hh":
            full = h.replace("_fwd.hh", ".hh") if h != "au/fwd.hh" else "au/au.hh"
            if os.path.exists(os.path.join(root, full)):
                for cfg in cfgs_h[:2]:
                    hjobs.append(("fwd", h, cfg, full))
            else:
                ctx.violation({"kind": "fwd without definition", "header": h}, "%s has no definition header %s" % (h, full), detail=None)

    def hdo(job):
        comp, std = core.CONFIGS[job[2]]
        h = job[1]
        tag = re.sub(r"\W", "_", h) + "_" + job[2]
        if job[0] == "hdr":
            src = ctx.write("hdr/%s.cc" % tag, '#include "%s"\nint main() {}\n' % h)
            src2 = ctx.write("hdr/%s_twice.cc" % tag, '#include "%s"\n#include "%s"\nint main() {}\n' % (h, h))
            rc, o = compile_(comp, std, ["-O0", "-fsyntax-only", "-I" + root, src])
            rc2, o2 = compile_(comp, std, ["-O0", "-fsyntax-only", "-I" + root, src2]) if rc == 0 and job[2] == cfgs_h[0] else (0, "")
            return job, int(rc == 0), errs_of(o) if rc else ("TWICE" if rc2 else "")
        else:
            text = open(os.path.join(root, h)).read()
            names = re.findall(r"^\s*(?:struct|class)\s+(\w+)\s*;", text, re.M) if h != "au/fwd.hh" else []
            L = ['#include "%s"' % h]
            L += ["namespace au { %s *auv_p%d = nullptr; }" % (nm, i) for i, nm in enumerate(names)]      # usable while incomplete
            L += ['#include "%s"' % job[3], '#include "%s"' % h]
            L += ['static_assert(sizeof(au::%s) > 0, "completed by the definition");' % nm for nm in names]
            src = ctx.write("hdr/fwd_%s.cc" % tag, "\n".join(L) + "\nint main() {}\n")
        rc, o = compile_(comp, std, ["-O0", "-fsyntax-only", "-I" + root, src])
        return job, int(rc == 0), errs_of(o)
    hres = ctx.pmap(hdo, hjobs)
    ctx.programs += len(hjobs)
    twice = sorted({job[1] for job, ok, diag in hres if ok and diag == "TWICE"})
    if twice:
        # not part of the property ("compiles on its own"); reported, never a verdict
        ctx.notes.append("headers without an include guard (a second #include in one TU redefines their contents; outside C20's statement): %s" % ", ".join(twice))
    for job, ok, diag in hres:
        obs.append({"k": job[0], "id": rid, "ok": ok})
        descr[rid] = (job[0], None, None, (job, diag))
        rid += 1

    # ---------------------------------------------------------------- probes: accepted or rejected alike in all six configurations
    probes = make_probes(rnd, 90 if quick else 1500)
    pre = ('#include "au/au.hh"\n#include "au/io.hh"\n#include "au/units/meters.hh"\n#include "au/units/feet.hh"\n#include "au/units/seconds.hh"\n#include "au/units/hertz.hh"\n'
           '#include "au/units/celsius.hh"\n#include "au/units/kelvins.hh"\n#include <chrono>\n#include <cstdint>\nusing namespace au;\ntypedef long double f80;\n')
    pch = {cfg: ctx.pch(cfg, "c20", pre) for cfg in core.ALL_CONFIGS}
    pjobs = [(i, cfg) for i in range(len(probes)) for cfg in core.ALL_CONFIGS]

    def pdo(job):
        i, cfg = job
        src = ctx.write("probe/p%d_%s.cc" % (i, cfg), "void probe() { %s }\n" % probes[i])
        rc, o = ctx.cxx(src, cfg=cfg, syntax_only=True, opt="-O0", flags=pch[cfg])
        return job, rc == 0, errs_of(o, 2)
    pres = ctx.pmap(pdo, pjobs)
    ctx.programs += len(pjobs)
    per = {}
    for (i, cfg), ok, diag in pres:
        per.setdefault(i, {})[cfg] = (ok, diag)
    for i, d in per.items():
        obs.append({"k": "alike", "id": rid, "obs": [{"cfg": c, "verdict": "accepted" if d[c][0] else "rejected", "out": ""} for c in core.ALL_CONFIGS]})
        descr[rid] = ("probe", None, None, (i, d))
        rid += 1
    naccept = sum(1 for d in per.values() if d["g14"][0])

    nv2, bad = ctx.tlc_batch_validate("Trace_Packaging.tla", obs, name="pack", shards=min(core.NCPU, 8), timeout=3000)
    for b in bad:
        kind, rep, io, x = descr[b["id"]]
        if kind == "tree":
            outs = {c: tree[(c, rep, io)] for c in core.ALL_CONFIGS if (c, rep, io) in tree}
            ref = outs["g14"]
            other = next(c for c in outs if (outs[c]["verdict"], outs[c]["out"]) != (ref["verdict"], ref["out"]))
            ctx.violation({"kind": "configurations differ", "rep": rep, "io": io},
                          "API-surface program, rep %s, %s: g14 %s, %s %s; %s" % (rep, "io" if io else "noio", ref["verdict"], other, outs[other]["verdict"], first_diff(ref, outs[other])),
                          detail={c: {"verdict": v["verdict"], "diag": v["diag"], "text": v["text"]} for c, v in outs.items()})
        elif kind == "sf":
            sid, cfg, r, t = x
            ctx.violation({"kind": "single file differs from tree", "rep": rep, "units": sorted(sels[sid]["units"]), "constants": sorted(sels[sid]["constants"]), "io": io, "cfg": cfg},
                          "selection #%d (%d units, %d constants, %s), rep %s [%s]: tree %s, single file %s; %s" % (
                              sid, len(sels[sid]["units"]), len(sels[sid]["constants"]), "io" if io else "noio", rep, cfg, t["verdict"], r["verdict"], first_diff(t, r)),
                          detail={"selection": sels[sid], "tree": t, "single": r})
        elif kind == "self":
            sid, per_cfg = x
            r = sby[sid]
            why = []
            if r["project_includes_left"]:
                why.append("project includes left in the text: %s" % r["project_includes_left"][:3])
            if r["pragma_once_count"] != 1:
                why.append("%d '#pragma once' lines" % r["pragma_once_count"])
            if not r["faith"]["code_same"]:
                why.append("the text is not the code of the closure's files in the emitted order: %s" % r["faith"]["first_diff"])
            if not r["faith"]["incs_same"]:
                why.append("system includes differ from those of the files: %s" % r["faith"]["incs_diff"])
            for c, v in per_cfg.items():
                if not (v["alone"] and v["twice"] and v["linked"]):
                    why.append("[%s] alone=%d twice=%d two-TUs=%d: %s" % (c, v["alone"], v["twice"], v["linked"], v["diag"][:300]))
            ctx.violation({"kind": "single file not self-contained", "units": sorted(sels[sid]["units"]), "constants": sorted(sels[sid]["constants"]), "io": sels[sid]["io"]},
                          "selection #%d (%d units, %d constants, %s): %s" % (sid, len(sels[sid]["units"]), len(sels[sid]["constants"]), "io" if sels[sid]["io"] else "noio", "; ".join(why)[:700]),
                          detail={"selection": sels[sid], "why": why})
        elif kind == "hdr":
            job, diag = x
            ctx.violation({"kind": "header alone", "header": job[1]}, "%s does not compile on its own [%s]: %s" % (job[1], job[2], diag[:400]), detail=diag)
        elif kind == "fwd":
            job, diag = x
            ctx.violation({"kind": "fwd", "header": job[1]}, "%s followed by %s [%s]: %s" % (job[1], job[3], job[2], diag[:400]), detail=diag)
        else:
            i, d = x
            acc = [c for c in core.ALL_CONFIGS if d[c][0]]
            rej = [c for c in core.ALL_CONFIGS if not d[c][0]]
            ctx.violation({"kind": "probe", "code": probes[i]}, "`%s` is accepted by %s and rejected by %s: %s" % (probes[i], acc, rej, d[rej[0]][1][:300]), detail={c: d[c][1] for c in d})
    ctx.evaluations += len(obs) + len(srecs)
    ctx.nontrivial = nontrivial + len(srecs) + len(probes)
    for r in srecs[:2]:
        ctx.sample({"selection": sels[r["id"]], "files_in_closure": len(r["files"]), "first_ready": r["ready"][:4]})
    ctx.sample({"probe": probes[0], "verdicts": {c: per[0][c][0] for c in core.ALL_CONFIGS}})
    if recs:
        ctx.sample({k: recs[0][k] for k in ("sel", "graph", "files", "ready")})
    ctx.layers["C"] = {"selections": len(srecs), "single_file_builds": sum(1 for j in jobs if j[0] != "tree"), "tree_builds": sum(1 for j in jobs if j[0] == "tree"),
                       "rep_classes": REPS, "headers_alone": len(hdrs), "fwd_pairs": sum(1 for j in hjobs if j[0] == "fwd") // 2, "configs_headers": cfgs_h,
                       "probes": len(probes), "probes_accepted": naccept, "configs_probes": core.ALL_CONFIGS, "records_validated_by_TLC": nv + nv2}
    shutil.rmtree(outdir, ignore_errors=True)


def tool_errors(ctx, recs, describe, key):
    """runs in which the real tool raised or did not return: violations when the failure is inside the tool, harness failures otherwise"""
    good = []
    nbad = 0
    for r in recs:
        if "error" not in r:
            good.append(r)
        elif r.get("in_tool"):
            nbad += 1
            if nbad <= 30:
                ctx.violation(key(r), "make-single-file on %s: %s%s" % (describe(r), r["error"], (" at " + r["where"]) if r.get("where") else ""), detail=r)
        else:
            raise core.ToolError("driver error outside the tool: %s" % r)
    return good


def first_diff(a, b):
    la, lb = a.get("text", "").splitlines(), b.get("text", "").splitlines()
    for x, y in zip(la, lb):
        if x != y:
            return "first difference: `%s` vs `%s`" % (x, y)
    if len(la) != len(lb):
        return "outputs have %d vs %d lines" % (len(la), len(lb))
    return (a.get("diag") or b.get("diag") or "")[:300]


def make_probes(rnd, count):
    """small programs over rep pairs; no expectation attached -- only that all configurations agree"""
    reps = ["int8_t", "uint8_t", "int16_t", "uint16_t", "int32_t", "uint32_t", "int64_t", "uint64_t", "float", "double", "f80", "bool", "char"]
    forms = [
        "auto x = -meters(A{1}); (void)x;",
        "auto x = +meters(A{1}); (void)x;",
        "auto x = meters(A{5}) % meters(B{3}); (void)x;",
        "auto x = meters(A{5}) % feet(B{3}); (void)x;",
        "auto x = meters(A{1}) + meters(B{1}); (void)x;",
        "auto x = meters(A{1}) - feet(B{1}); (void)x;",
        "bool x = meters(A{1}) < feet(B{1}); (void)x;",
        "bool x = meters(A{1}) == seconds(B{1}); (void)x;",
        "auto x = meters(A{1}) * B{2}; (void)x;",
        "auto x = meters(A{4}) / B{2}; (void)x;",
        "auto x = B{2} / seconds(A{4}); (void)x;",
        "auto x = meters(A{4}) / seconds(B{2}); (void)x;",
        "auto x = hertz(A{4}) * seconds(B{2}); (void)x;",
        "Quantity<Meters, A> x = meters(B{1}); (void)x;",
        "Quantity<Meters, A> x = feet(B{1}); (void)x;",
        "Quantity<Meters, A> x{kilo(meters)(B{1})}; (void)x;",
        "Quantity<Kilo<Meters>, A> x = meters(B{1}); (void)x;",
        "Quantity<Meters, A> x = meters(A{1}); x += meters(B{1});",
        "Quantity<Meters, A> x = meters(A{1}); x *= B{2};",
        "Quantity<Meters, A> x = meters(A{1}); x /= B{2};",
        "auto x = meters(A{1}).in(kilo(meters)); (void)x;",
        "auto x = meters(A{1}).as<B>(milli(meters)); (void)x;",
        "auto x = meters(A{1}).coerce_as<B>(kilo(meters)); (void)x;",
        "auto x = feet(A{100}).coerce_as<B>(meters); (void)x;",
        "auto x = feet(A{100}).coerce_in(meters); (void)x;",
        "auto x = meters(A{100}).coerce_in(feet * mag<3>() / mag<7>()); (void)x;",
        "Quantity<Meters, A> x = rep_cast<A>(feet(B{100})).coerce_as(meters); (void)x;",
        "bool x = will_conversion_overflow(feet(A{100}), meters) || will_conversion_truncate(feet(A{100}), meters * mag<5>() / mag<9>()); (void)x;",
        "auto x = rep_cast<B>(meters(A{1})); (void)x;",
        "A x = meters(A{4}) / unblock_int_div(meters(B{2})); (void)x;",
        "QuantityPoint<Celsius, A> x = kelvins_pt(B{300}); (void)x;",
        "QuantityPoint<Kelvins, A> x = celsius_pt(B{20}); (void)x;",
        "auto x = celsius_pt(A{20}) - kelvins_pt(B{290}); (void)x;",
        "bool x = celsius_pt(A{20}) < kelvins_pt(B{290}); (void)x;",
        "auto x = celsius_pt(A{20}) + kelvins(B{2}); (void)x;",
        "std::chrono::duration<A> x = seconds(B{3}); (void)x;",
        "std::chrono::duration<A, std::milli> x = seconds(B{3}); (void)x;",
        "Quantity<Seconds, A> x = std::chrono::duration<B, std::milli>{B{3}}; (void)x;",
        "bool x = std::chrono::duration<A, std::milli>{A{3}} < seconds(B{1}); (void)x;",
        "auto x = seconds(A{3}) + std::chrono::duration<B, std::micro>{B{3}}; (void)x;",
        "auto x = inverse_as(micro(seconds), hertz(A{250})); (void)x;",
        "auto x = inverse_as<B>(seconds, hertz(A{2})); (void)x;",
        "auto x = round_as<B>(meters, feet(A{3})); (void)x;",
        "auto x = int_pow<2>(meters(A{3})); (void)x;",
        "auto x = sqrt(squared(meters)(A{4})); (void)x;",
        "auto x = abs(meters(A{4})); (void)x;",
        "auto x = min(meters(A{4}), feet(B{1})); (void)x;",
        "auto x = clamp(meters(A{4}), feet(B{1}), feet(B{2})); (void)x;",
        "auto x = meters(A{4}) % unblock_int_div(feet(B{1})); (void)x;",
        "Quantity<Meters, A> x = ZERO; x = meters(B{1});",
        "auto x = meters(A{1}) == ZERO; (void)x;",
        "bool x = is_conversion_lossy<B>(meters(A{1}), kilo(meters)); (void)x;",
    ]
    allp = [f.replace("A{", a + "{").replace("<A>", "<" + a + ">").replace(", A>", ", " + a + ">").replace("A x", a + " x").replace("<A,", "<" + a + ",")
             .replace("B{", b + "{").replace("<B>", "<" + b + ">").replace("<B,", "<" + b + ",")
            for f in forms for a in reps for b in reps]
    allp = sorted(set(allp))
    rnd.shuffle(allp)
    return allp[:count]
