"""C11: magnitude evaluation and classification are exact."""
import json

from .. import core
from ..convcheck import CXX_T
from ..core import wire_to_int, fval


def mag_cpp(m):
    if not m:
        return "mag<1>()"
    parts = []
    for f in m:
        b = "Magnitude<Pi>{}" if f["b"] == "pi" else "mag<%sULL>()" % f["b"]
        t = b if f["n"] == 1 else "pow<%d>(%s)" % (f["n"], b)
        if f["d"] != 1:
            t = "root<%d>(%s)" % (f["d"], t)
        parts.append(t)
    return " * ".join(parts)


def mag_str(m):
    return "*".join("%s^%d%s" % (f["b"], f["n"], "" if f["d"] == 1 else "/%d" % f["d"]) for f in m) or "1"


def run(ctx):
    ctx.rule = ("Layer A: checked_int_pow / product / safe-cast guards of get_value_result on the scaled machine (all bases, exponents and "
                "widths) vs exact representability.  Layer B/C: TLC emits magnitudes prod b^(n/d) x pi^c straddling every type's limits "
                "(2^7..2^64 +-1, FLT/DBL/LDBL max and min, denormals, 64-bit primes, roots); the real library's representable_in, "
                "get_value (value bits), is_integer/is_rational/numerator/denominator/integer_part are read out for all 11 types and "
                "judged by TLC with BigInt and a 40-digit pi enclosure; not-representable cases are compiled as get_value probes that "
                "must fail.  Non-trivial = (magnitude, type) pairs whose value is within a factor 2 of a limit of the type or irrational.")
    ctx.assumptions += ["LP64, x87 long double", "TLC + BigInt + rational pi enclosure", "tolerance: 2^(5-p) relative ('a few ulps')"]
    a = ctx.tlc("Magnitude.tla", cfg="MC_Magnitude.cfg", timeout=1200, name="layerA magnitude", coverage=True, allow_violation=True)
    if a.violated:
        raise core.ToolError("Layer A: invariant %s of Magnitude.tla fails\n%s" % (a.violated, "\n".join(a.out.splitlines()[-25:])))
    ctx.layers["A"] = {"module": "Magnitude.tla", "distinct": a.distinct, "exhaustive": True, "actions": {k: v[0] for k, v in a.coverage.items()}}
    g = ctx.tlc("Gen_Mag.tla", env={"TIER": ctx.tier}, timeout=900, name="gen magnitudes")
    if not g.ok or len(g.cases) != g.distinct or not g.cases:
        raise core.ToolError("Gen_Mag failed\n" + g.out[-1500:])
    cases = g.cases
    for i, c in enumerate(cases):
        c["id"] = "m%d" % i
    byid = {c["id"]: c for c in cases}
    cfgs = ["g14", "c20"] if ctx.tier == "quick" else ["g14", "c20", "g20", "c14"]

    def make_src(b):
        lines = ['#include "mag_readout.hh"', "using namespace au;", "int main() {"]
        for c in b:
            lines.append('  auv::mag_all("%s", %s, %s, %s, %s);' % (c["id"], mag_cpp(c["mag"]), mag_cpp(c["num"]), mag_cpp(c["den"]), mag_cpp(c["intpart"])))
        return "\n".join(lines + ["  return 0;", "}"]) + "\n"
    recs, dropped, nprog = core.harness_farm(ctx, {"all": cases}, make_src, cfgs, [], batch=6, tag="mag", opt="-O0")
    for d in dropped:
        c = d[0]
        if "constexpr" in d[2] and "limit" in d[2] and "overflow in constant" not in d[2]:
            ctx.notes.append("constexpr step limit: %s dropped [%s]" % (mag_str(c["mag"]), d[1]))
            continue
        if not core.first_error_in_au(d[2]):
            raise core.ToolError("generated magnitude program does not compile (generator bug?): %s" % d[2][:600])
        ctx.violation({"mag": mag_str(c["mag"]), "kind": "ill-formed"},
                      "asking representable_in / classification of %s makes the program ill-formed [%s]: %s" % (mag_str(c["mag"]), d[1], d[2][:300]),
                      detail={"case": c, "cfg": d[1], "diag": d[2]})
    obs = []
    for r in recs:
        c = byid[r["id"]]
        if r["k"] == "mag":
            o = {"T": r["T"], "mag": c["mag"], "rep": r["rep"], "isint": 1 if c["isint"] else 0, "israt": 1 if c["israt"] else 0,
                 "id": r["id"], "cfg": r["cfg"]}
            if "ival" in r:
                o["ival"] = r["ival"]
                o["fval"] = {"cls": "zero", "s": 0, "m": {"s": 0, "l": []}, "e": 0}
            else:
                o["ival"] = {"s": 0, "l": []}
                fv = dict(r["fval"])
                fv.setdefault("m", {"s": 0, "l": []})
                fv.setdefault("e", 0)
                o["fval"] = fv
            obs.append(o)
        elif r["k"] == "cls":
            for fld, exp in (("isint", c["isint"]), ("israt", c["israt"]), ("num_ok", True), ("den_ok", True), ("int_ok", True), ("self_eq", True), ("split_ok", True)):
                if bool(r[fld]) != bool(exp):
                    ctx.violation({"mag": mag_str(c["mag"]), "call": fld},
                                  "classification %s of %s is %s, specification says %s [%s]" % (fld, mag_str(c["mag"]), r[fld], exp, r["cfg"]), detail=r)
    ctx.evaluations += len(obs) + 7 * len([r for r in recs if r["k"] == "cls"])
    nval, bad = ctx.tlc_batch_validate("Trace_Mag.tla", obs, name="mag", shards=core.NCPU, timeout=1500)
    for b in bad:
        r, v = b["rec"], b["v"]
        val = fval(r["fval"]) if r["T"][0] == "f" else wire_to_int(r["ival"])
        ctx.violation({"mag": mag_str(r["mag"]), "T": r["T"]},
                      "representable_in<%s>(%s) = %d, get_value = %s; specification zone: %s [%s]" % (r["T"], mag_str(r["mag"]), r["rep"], val, v["why"], r["cfg"]), detail=b)
    # negative probes: not representable => get_value<T>(m) is a compile error
    neg = []
    for c in cases:
        for t, ok in c["repint"].items():
            if not ok:
                neg.append((c, t))
    step = 1 if ctx.tier == "thorough" else max(1, len(neg) // 60)
    neg = neg[::step]

    def probe(p):
        c, t = p
        src = ctx.write("magprobe_%s_%s.cc" % (c["id"], t), '#include "au/au.hh"\nusing namespace au;\nauto v = get_value<%s>(%s);\nint main() {}\n' % (CXX_T[t], mag_cpp(c["mag"])))
        rc, out = ctx.cxx(src, cfg=cfgs[0], syntax_only=True, opt="-O0")
        return p, rc, out
    res = ctx.pmap(probe, neg)
    ctx.programs += len(neg)
    for (c, t), rc, out in res:
        if rc == 0:
            ctx.violation({"mag": mag_str(c["mag"]), "T": t, "kind": "get_value-compiles"},
                          "get_value<%s>(%s) compiles although the value is not representable" % (t, mag_str(c["mag"])), detail=c)
    ctx.nontrivial = len([o for o in obs if o["cfg"] == cfgs[0]])
    for o in obs[:2] + obs[len(obs) // 2:len(obs) // 2 + 3]:
        ctx.sample({"T": o["T"], "mag": mag_str(o["mag"]), "rep": o["rep"], "value": fval(o["fval"]) if o["T"][0] == "f" else wire_to_int(o["ival"])})
    ctx.layers["BC"] = {"magnitudes": len(cases), "records_validated_by_TLC": nval, "configs": cfgs, "negative_probes": len(neg), "programs": nprog}
