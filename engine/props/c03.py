from .. import convcheck


def run(ctx):
    convcheck.run(ctx, "C03")
    from .. import walks
    walks.run(ctx, {"CoerceAs"}, "forced conversions inside chains of operations", seed_offset=3)
