"""C17: std::chrono durations round-trip through quantities unchanged."""
import json
import re

from .. import core
from ..convcheck import CXX_T
from ..core import wire_to_int, fval


def run(ctx):
    ctx.rule = ("A duration<Rep, Period> is the quantity <seconds x Period, Rep, count>: for Rep in {i32, i64, f32, f64} x 10 periods (nano..days, 1/60, "
                "1001/30000, 1/3) as_quantity keeps count (bit for bit), rep and has unit seconds x Period; the implicit conversion back and "
                "as_chrono_duration return the same count with the same (reduced) period.  Mixed duration/quantity ==, !=, <, <=, >, >=, +, - (both "
                "operand orders) are swept against C08's contract emitted by TLC and against chrono's own answer for the same operands; records "
                "are re-derived by TLC.  Implicit acceptance of a duration by Quantity<u, R2> is compiled as is_convertible / is_constructible "
                "queries against C06's predicate evaluated by TLC on Period / u.  Non-trivial = operand pairs equal in the common unit or on a "
                "scaling-overflow boundary, and all acceptance queries.")
    ctx.assumptions += ["libstdc++'s chrono as the reference for 'performing the operation inside chrono'", "agreement is demanded only where neither scaling overflows the common rep"]
    g = ctx.tlc("Gen_Chrono.tla", env={"TIER": ctx.tier}, timeout=900, name="chrono instances")
    if not g.ok or len(g.cases) != g.distinct or not g.cases:
        raise core.ToolError("Gen_Chrono failed\n" + g.out[-1500:])
    cases = g.cases
    cfgs = core.QUICK_CONFIGS if ctx.tier == "quick" else core.ALL_CONFIGS
    pre = '#include "chrono_sweep.hh"\nusing namespace au;\n'
    # 1. acceptance traits (batched, bisect on hard errors)
    def trait_tu(lst):
        L = ['#include "au/au.hh"', '#include "au/units/seconds.hh"', "#include <chrono>", "using namespace au;",
             "template <uint64_t N, uint64_t D> using SU = decltype(Seconds{} * mag<N>() / mag<D>());"]
        for k, c in enumerate(lst):
            d = "std::chrono::duration<%s, std::ratio<%s, %s>>" % (CXX_T[c["R1"]], c["N1"], c["D1"])
            q = "Quantity<SU<%sULL, %sULL>, %s>" % (c["N2"], c["D2"], CXX_T[c["R2"]])
            exp = "true" if c["accept"] else "false"
            L.append('static_assert(std::is_convertible<%s, %s>::value == %s, "a%d is_convertible");' % (d, q, exp, k))
            L.append('static_assert(std::is_constructible<%s, %s>::value == %s, "a%d is_constructible");' % (q, d, exp, k))
            # every value category and constness of the duration ("for every duration value d")
            L.append('static_assert(std::is_convertible<const %s, %s>::value == %s && std::is_convertible<%s &, %s>::value == %s && std::is_convertible<const %s &, %s>::value == %s && '
                     'std::is_convertible<%s &&, %s>::value == %s && std::is_convertible<const %s &&, %s>::value == %s, "a%d is_convertible_cvref");' % (d, q, exp, d, q, exp, d, q, exp, d, q, exp, d, q, exp, k))
            L.append('static_assert(std::is_convertible<%s, %s>::value == %s, "a%d corresponding-quantity");' % (d.replace("std::chrono::duration<%s, std::ratio<%s, %s>>" % (CXX_T[c["R1"]], c["N1"], c["D1"]), "Quantity<SU<%sULL, %sULL>, %s>" % (c["N1"], c["D1"], CXX_T[c["R1"]])), q, exp, k))
        return "\n".join(L) + "\nint main() {}\n"
    nt = [0]

    def tcomp(job):
        lst, cfg = job
        nt[0] += 1
        src = ctx.write("ctrait_%s_%d.cc" % (cfg, nt[0]), trait_tu(lst))
        rc, out = ctx.cxx(src, cfg=cfg, syntax_only=True, opt="-O0", flags=(["-ferror-limit=0"] if cfg.startswith("c") else ["-fmax-errors=0"]))
        if rc == 0:
            return []
        hits = set(re.findall(r'"?a(\d+) ([a-z_\-]+)', out))
        errs = [l for l in out.splitlines() if "error" in l]
        hard = [l for l in errs if not re.search(r'a\d+ [a-z_\-]+', l)]
        res = [(lst[int(k)], cfg, n, "answer") for k, n in hits]
        if hard and not hits:
            if len(lst) == 1:
                res.append((lst[0], cfg, "trait", "\n".join(hard[:3])))
            else:
                h = len(lst) // 2
                return tcomp((lst[:h], cfg)) + tcomp((lst[h:], cfg))
        return res
    chunks = [cases[k:k + 60] for k in range(0, len(cases), 60)]
    tf = [f for lst in ctx.pmap(tcomp, [(c, cfg) for c in chunks for cfg in cfgs]) for f in lst]
    ctx.programs += nt[0]
    for c, cfg, name, diag in tf:
        key = {"Rep": c["R1"], "Period": c["N1"] + "/" + c["D1"], "R2": c["R2"], "unit": c["N2"] + "/" + c["D2"], "kind": name if diag == "answer" else "hard-error"}
        if diag != "answer" and not core.first_error_in_au(diag):
            raise core.ToolError("chrono trait TU does not compile (generator bug?): %s" % diag[:600])
        ctx.violation(key, "duration<%s, %s/%s> -> Quantity<%s/%s s, %s>: %s (predicate says accept=%s) [%s] %s" % (
            c["R1"], c["N1"], c["D1"], c["N2"], c["D2"], c["R2"], name, c["accept"], cfg, "" if diag == "answer" else diag[:300]), detail=c)
    ctx.log("acceptance queries: %d cases x 3, %d compiles, %d failures" % (len(cases), nt[0], len(tf)))
    # 2. round trips (all four reps x periods) and mixed operations (integral pairs enabled by the policy)
    periods = sorted({(c["N1"], c["D1"]) for c in cases})
    rt = [{"kind": "rt", "R": r, "N": n, "D": d} for r in ("i32", "i64", "f32", "f64") for (n, d) in periods]
    mixed = [dict(c, kind="mixed") for c in cases if c["ints"] and c["enabled"]]
    accepted = [dict(c, kind="acc") for c in cases if c["accept"]]

    def make_src(b):
        L = [pre, "int main(int argc, char **argv) {", "  auv::MOpts o = auv::parse_mopts(argc, argv);", "  long long bad = 0, n = 0;"]
        for c in b:
            if c["kind"] == "rt":
                L.append("  bad += auv::chrono_roundtrip<%s, %s, %s>(o.seed); ++n;" % (CXX_T[c["R"]], c["N"], c["D"]))
            elif c["kind"] == "acc":
                L.append("  bad += auv::chrono_accept<%s, %s, %s, %s, %sULL, %sULL>(); ++n;" % (CXX_T[c["R1"]], c["N1"], c["D1"], CXX_T[c["R2"]], c["N2"], c["D2"]))
            else:
                L.append('  auv::chrono_mixed<%s, %s, %s, %s, %sULL, %sULL>("%s", "%s", "%s", "%s", "%s", "%s", o);' % (
                    CXX_T[c["R1"]], c["N1"], c["D1"], CXX_T[c["R2"]], c["N2"], c["D2"], c["K1"], c["K2"], c["lo"], c["hi"], c["plo"], c["phi"]))
        L.append('  std::printf("{\\"k\\":\\"rtsum\\",\\"n\\":%lld,\\"bad\\":%lld}\\n", n, bad);')
        return "\n".join(L + ["  return 0;", "}"]) + "\n"
    args = ["--seed", str(ctx.seed), "--nrandom", "1500" if ctx.tier == "quick" else "100000", "--sample-shift", "11"]
    recs, dropped, nprog = core.harness_farm(ctx, {"rt": rt, "mixed": mixed, "acc": accepted}, make_src, cfgs[:2] if ctx.tier == "quick" else cfgs, args, batch=6, tag="chrono")
    for d in dropped:
        if not core.first_error_in_au(d[2]):
            raise core.ToolError("chrono harness does not compile (generator bug?): %s" % d[2][:800])
        ctx.violation({"kind": d[0]["kind"] + "-rejected", "inst": json.dumps({k: v for k, v in d[0].items() if k in ("R", "N", "D", "R1", "N1", "D1", "R2", "N2", "D2")}, sort_keys=True)},
                      "chrono interop program does not compile [%s]: %s" % (d[1], d[2][:300]), detail=d[0])
    for r in recs:
        if r["k"] == "accmis":
            ctx.violation({"kind": "implicit conversion value", "Rep": r["Rep"], "Period": r["P"], "R2": r["R2"], "unit": r["U"]},
                          "duration<%s, %s>{%s} converted implicitly to Quantity<%s s, %s> holds %s; its corresponding quantity converts to %s [%s]" % (
                              r["Rep"], r["P"], fval(r["v"]), r["U"], r["R2"], fval(r["from_duration"]), fval(r["from_quantity"]), r["cfg"]), detail=r)
        if r["k"] == "rtsum" and r["bad"]:
            ctx.violation({"kind": "roundtrip", "cfg": r["cfg"]}, "%d round-trip checks failed (count/rep/unit/period) in a batch of %d duration types [%s]" % (r["bad"], r["n"], r["cfg"]), detail=r)
    obs = [r for r in recs if r["k"] == "mixed"]
    sums = [r for r in recs if r["k"] == "msum"]
    ctx.evaluations += sum(s["swept"] for s in sums) + len(cases) * 3 * len(cfgs) + sum(r["n"] * 12 for r in recs if r["k"] == "rtsum")
    ctx.nontrivial += sum(s["nontrivial"] for s in sums if s["cfg"] == cfgs[0]) + len(cases)
    nval, bad = ctx.tlc_batch_validate("Trace_Mixed.tla", obs, name="chrono", shards=core.NCPU)
    badk = set()
    for b in bad:
        r, v = b["rec"], b["v"]
        key = {"Rep": r["R1"], "Period": "%d/%d" % (wire_to_int(r["N1"]), wire_to_int(r["D1"])), "R2": r["R2"], "unit": "%d/%d" % (wire_to_int(r["N2"]), wire_to_int(r["D2"])), "x": str(wire_to_int(r["x"])), "y": str(wire_to_int(r["y"]))}
        badk.add(json.dumps(key, sort_keys=True) + r["cfg"])
        if v["ok"] and not v["cmp"]:
            raise core.ToolError("comparator/contract disagrees with the specification: %s" % json.dumps(b))
        ctx.violation(key, "duration(%s) op quantity(%s): lt=%d le=%d gt=%d ge=%d eq=%d ne=%d sum=%d dif=%d; exact order %s [%s]" % (
            key["x"], key["y"], r["lt"], r["le"], r["gt"], r["ge"], r["eq"], r["ne"], wire_to_int(r["sum"]), wire_to_int(r["dif"]), v["ord"], r["cfg"]), detail=b)
    for r in obs:
        key = {"Rep": r["R1"], "Period": "%d/%d" % (wire_to_int(r["N1"]), wire_to_int(r["D1"])), "R2": r["R2"], "unit": "%d/%d" % (wire_to_int(r["N2"]), wire_to_int(r["D2"])), "x": str(wire_to_int(r["x"])), "y": str(wire_to_int(r["y"]))}
        if r["why"] == "chrono-disagrees" or (r["cready"] and not r["chrono_agree"]):
            ctx.violation(dict(key, kind="chrono-disagrees"), "mixed duration/quantity operation differs from chrono's own answer (or between operand orders): %s [%s]" % (
                {k: (wire_to_int(v) if isinstance(v, dict) else v) for k, v in r.items() if k not in ("mod",)}, r["cfg"]), detail=r)
        elif r["why"] == "mismatch" and json.dumps(key, sort_keys=True) + r["cfg"] not in badk:
            raise core.ToolError("comparator mismatch not confirmed by TLC: %s" % json.dumps(r))
    for r in obs[:2]:
        ctx.sample({k: (wire_to_int(v) if isinstance(v, dict) else v) for k, v in r.items() if k != "mod"})
    ctx.sample({k: cases[0][k] for k in ("R1", "N1", "D1", "R2", "N2", "D2", "accept")})
    ctx.layers["BC"] = {"acceptance_cases": len(cases), "roundtrip_types": len(rt), "mixed_instances": len(mixed), "records_validated_by_TLC": nval, "configs": cfgs}
