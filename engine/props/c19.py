"""C19: ZERO is the exact zero of every unit."""
from .. import core
from ..core import wire_to_int, fval

UNITS = [("Meters", "Meters"), ("Celsius", "Celsius"), ("Hertz", "Hertz"), ("Percent", "Percent"), ("Unos", "Unos"),
         ("m_per_s", "decltype(Meters{} / Seconds{})"), ("scaled", "decltype(Meters{} * mag<3>() / mag<128>())"), ("sqrt_m", "decltype(root<2>(Meters{}))")]
PROBES = [("point-from-zero", "QuantityPoint<Celsius, double> p = ZERO;"), ("point-brace-zero", "QuantityPoint<Meters, int> p{ZERO};"),
          ("point-assign-zero", "auto p = meters_pt(1); p = ZERO;"), ("point-eq-zero", "bool r = (meters_pt(1) == ZERO);"),
          ("point-lt-zero", "bool r = (celsius_pt(1.0) < ZERO);"), ("zero-ge-point", "bool r = (ZERO >= meters_pt(1));"),
          ("point-maker-zero", "auto p = meters_pt(ZERO);"), ("point-minus-zero-as-point", "QuantityPoint<Meters, int> p = meters_pt(3) - meters_pt(3) + ZERO;")]
TWINS = [("quantity-from-zero", "Quantity<Celsius, double> q = ZERO;"), ("quantity-eq-zero", "bool r = (meters(1) == ZERO);"),
         ("point-diff-eq-zero", "bool r = ((meters_pt(1) - meters_pt(1)) == ZERO);"), ("point-plus-zero-quantity", "auto p = meters_pt(3) + Quantity<Meters, int>{ZERO};")]


def run(ctx):
    ctx.rule = ("Every comparison (both operand orders), q + ZERO, ZERO + q, q - ZERO, ZERO - q, initialisation and assignment from ZERO, for 8 units x "
                "11 reps over all 8/16-bit values, boundary/random wider values and NaN/inf/-0.0/denormals, next to the stored value's comparison "
                "with 0 (comparator) -- sampled and all disagreeing records are judged by TLC from the raw stored value (sign / NaN class); "
                "ZERO converts to 0 of 13 arithmetic types and 4 chrono durations; every use of ZERO where a QuantityPoint is required must be "
                "rejected (probes with quantity twins).  Non-trivial = values 0, +-1, type limits, -0.0, NaN, infinities, denormals.")
    ctx.assumptions += ["ZERO - q at the most negative value of a signed 32/64-bit rep is raw UB and excluded"]

    def make_src(b):
        L = ['#include "zero_sweep.hh"', "using namespace au;", "int main(int argc, char **argv) {", "  uint64_t seed = argc > 1 ? (uint64_t)std::atoll(argv[1]) : 1;"]
        for name, t in b:
            if name == "conv":
                L.append("  auv::zero_conversions();")
            else:
                L.append('  auv::zero_unit<%s>("%s", seed);' % (t, name))
        return "\n".join(L + ["  return 0;", "}"]) + "\n"
    cfgs = core.QUICK_CONFIGS if ctx.tier == "quick" else core.ALL_CONFIGS
    items = UNITS + [("conv", "")]
    recs, dropped, nprog = core.harness_farm(ctx, {i[0]: [i] for i in items}, make_src, cfgs, [str(ctx.seed)], batch=1, tag="zero")
    for d in dropped:
        if not core.first_error_in_au(d[2]):
            raise core.ToolError("ZERO harness does not compile: %s" % d[2][:800])
        ctx.violation({"U": d[0][0], "kind": "rejected"}, "ZERO operations on unit %s do not compile [%s]: %s" % (d[0][0], d[1], d[2][:400]), detail=d[2])
    obs = [r for r in recs if r["k"] == "zero"]
    sums = [r for r in recs if r["k"] == "zsum"]
    for r in recs:
        if r["k"] == "zconv" and not (r["arith"] and r["chrono"] and r["zz"]):
            ctx.violation({"kind": "conversion", "arith": r["arith"], "chrono": r["chrono"], "zz": r["zz"]}, "ZERO does not convert to 0 of every arithmetic type / chrono duration, or ZERO op ZERO is wrong [%s]: %s" % (r["cfg"], r), detail=r)
    nval, bad = ctx.tlc_batch_validate("Trace_Zero.tla", obs, name="zero", shards=8)
    badset = set()
    for b in bad:
        r = b["rec"]
        x = fval(r["x"]) if "cls" in r["x"] else str(wire_to_int(r["x"]))
        badset.add((r["U"], r["R"], x, r["cfg"]))
        ctx.violation({"U": r["U"], "R": r["R"], "x": x}, "ZERO operations on %s<%s> value %s: q op ZERO = %s (expected %s), ZERO op q = %s (expected %s), q+ZERO same=%d q-ZERO same=%d ZERO+q same=%d ZERO-q=-q %d init=%d [%s]" % (
            r["U"], r["R"], x, r["qz"], b["expect_qz"], r["zq"], b["expect_zq"], r["plus_same"], r["minus_same"], r["zplus_same"], r["zminus_neg"], r["init_zero"], r["cfg"]), detail=b)
    for r in obs:
        if r["why"] == "mismatch":
            x = fval(r["x"]) if "cls" in r["x"] else str(wire_to_int(r["x"]))
            if (r["U"], r["R"], x, r["cfg"]) not in badset:
                raise core.ToolError("comparator mismatch not confirmed by TLC: %s" % r)
    # probes: ZERO is never accepted where a point is required
    pre = '#include "au/au.hh"\n#include "au/units/meters.hh"\n#include "au/units/celsius.hh"\nusing namespace au;\n'
    pch = {cfg: ctx.pch(cfg, "c19", pre) for cfg in cfgs[:2]}

    def probe(p):
        name, stmt, expect = p
        out = []
        for cfg in cfgs[:2]:
            src = ctx.write("zp_%s_%s.cc" % (cfg, name), "void f() { %s }\nint main() {}\n" % stmt)
            rc, o = ctx.cxx(src, cfg=cfg, syntax_only=True, opt="-O0", flags=pch[cfg])
            out.append((cfg, rc == 0, [l for l in o.splitlines() if "error" in l][:2]))
        return p, out
    res = ctx.pmap(probe, [(n, s, False) for n, s in PROBES] + [(n, s, True) for n, s in TWINS])
    for (name, stmt, expect), outs in res:
        for cfg, ok, diag in outs:
            if ok != expect:
                ctx.violation({"probe": name, "kind": "accepted" if ok else "rejected"}, "'%s' compiles=%s but must %s [%s] %s" % (stmt, ok, "compile" if expect else "be rejected", cfg, " | ".join(diag)[:300]), detail=stmt)
    ctx.programs += 2 * (len(PROBES) + len(TWINS))
    ctx.evaluations += sum(s["n"] for s in sums)
    ctx.nontrivial = len([r for r in obs if r["cfg"] == cfgs[0]])
    for r in obs[:2] + [o for o in obs if o["R"] == "f64"][:2]:
        ctx.sample({"U": r["U"], "R": r["R"], "x": fval(r["x"]) if "cls" in r["x"] else wire_to_int(r["x"]), "q_op_ZERO": r["qz"], "ZERO_op_q": r["zq"]})
    ctx.layers["BC"] = {"units": [u[0] for u in UNITS], "values_swept": sum(s["n"] for s in sums), "records_validated_by_TLC": nval, "point_probes": len(PROBES), "twins": len(TWINS), "configs": cfgs}
    ctx.states = max(ctx.states, 1)
    ctx.transitions = max(ctx.transitions, 1)
