"""C09: QuantityPoint obeys exact affine semantics."""
import json
import math
import random

from .. import core
from ..convcheck import CXX_T
from ..core import wire_to_int

FORBIDDEN = [("point+point", "auto r = p + p2;"), ("scalar*point", "auto r = 2 * p;"), ("point*scalar", "auto r = p * 2;"), ("point*point", "auto r = p * p2;"),
             ("point/scalar", "auto r = p / 2;"), ("negate-point", "auto r = -p;"), ("point+=point", "p += p2;"), ("quantity-from-point", "Quantity<Kelvins, int> q = p;"),
             ("point-from-quantity", "QuantityPoint<Kelvins, int> r = kelvins(3);"), ("point-maker-of-quantity", "auto r = kelvins_pt(kelvins(3));"),
             ("quantity-maker-of-point", "auto r = kelvins(p);"), ("point<quantity", "bool r = (p < kelvins(3));"), ("point==quantity", "bool r = (p == kelvins(3));"),
             ("quantity-minus-point", "auto r = kelvins(3) - p;"), ("point-as-quantity-unit-slot", "auto r = kelvins(5).as(celsius_pt);"),
             ("sqrt-of-point", "auto r = sqrt(celsius_pt(4.0));"), ("point-times-quantity", "auto r = p * kelvins(2);"), ("inverse-of-point", "auto r = 1 / p;")]
TWINS = [("point-point", "auto r = p - p2;"), ("point+quantity", "auto r = p + kelvins(2);"), ("quantity+point", "auto r = kelvins(2) + p;"), ("point-quantity", "auto r = p - kelvins(2);"),
         ("point<point", "bool r = (p < p2);"), ("point+=quantity", "p += kelvins(2);"), ("diff-times-scalar", "auto r = (p - p2) * 2;"), ("point-as-point-slot", "auto r = p.coerce_as(celsius_pt);")]


def run(ctx):
    ctx.rule = ("Layer A: PointPipeline.tla models QuantityPoint::in<NewRep>(NewUnit) step by step (IntermediateRep, rep_cast, mixed-unit subtraction of the "
                "origin displacement in the common unit, conversion N/D, final cast) on the scaled machine for every pair of 6 reps x 7 point units x every "
                "value: the result is the exact affine image with no UB/wrap whenever the intermediates fit the calculation rep.  Layer B/C: point units (Kelvins, Celsius, Fahrenheit, prefixed forms and seeded generated units with rational scale and rational origin) are read "
                "out of the compiled types; TLC (PointBig.tla, BigInt rationals) emits for every ordered pair the affine contract x -> (x*A + B)/C and "
                "the integer position grid; a comparator sweeps dense windows around 0 and the origins plus boundary/random values through "
                "coerce_in/coerce_as/in/as<Rep>, the six comparisons, point - point, point +- quantity, quantity + point; every disagreement and a sample "
                "(all equal-position pairs) is re-derived by TLC from the raw inputs and the read-out descriptors; operations without affine meaning "
                "are compiled as probes that must fail (with compiling twins).  Non-trivial = inputs whose exact image is an integer, equal positions, "
                "values at the origins.")
    ctx.assumptions += ["integral reps are i32 (catalogue temperature units) and i64 with value windows that keep every intermediate representable; "
                        "non-integer exact results are outside the claim", "unit definitions are inputs"]
    # Layer A: the conversion pipeline of QuantityPoint::in<NewRep>(NewUnit) on the scaled machine
    a = ctx.tlc("MC_PointPipeline.tla", timeout=3000, name="layerA point pipeline", allow_violation=True, xmx="8g")
    if a.violated:
        raise core.ToolError("Layer A: invariant %s of PointPipeline.tla fails\n%s" % (a.violated, "\n".join(a.out.splitlines()[-30:])))
    ctx.layers["A"] = {"module": "PointPipeline.tla", "distinct": a.distinct, "exhaustive": True,
                       "what": "IntermediateRep / displacement / conversion steps over 6 scaled reps x 7 point units x all values: exact affine image whenever the intermediates fit"}
    rnd = random.Random(ctx.seed)
    pool = [("Kelvins", "Kelvins"), ("Celsius", "Celsius"), ("Fahrenheit", "Fahrenheit"), ("mK", "Milli<Kelvins>"), ("cC", "Centi<Celsius>"), ("kK", "Kilo<Kelvins>"),
            ("mF", "Milli<Fahrenheit>"), ("mC", "Milli<Celsius>")]
    ncat = len(pool)
    decls = []
    for g in range(4 if ctx.tier == "quick" else 12):
        n, d = rnd.randint(1, 60), rnd.randint(1, 60)
        k = math.gcd(n, d)
        n, d = n // k, d // k
        od = rnd.choice([1, 2, 3, 4, 5, 9, 10, 20])
        on = rnd.choice([0, rnd.randint(-500, 500), rnd.randint(1, 3000), -rnd.randint(1, 200)])
        org = "" if on == 0 else " static constexpr auto origin() { return (kelvins / mag<%d>())(%dLL); }" % (od, on)
        decls.append("struct G%d : decltype(Kelvins{} * mag<%d>() / mag<%d>()) {%s };" % (g, n, d, org))
        pool.append(("G%d" % g, "G%d" % g))
    pre = '#include "point_sweep.hh"\nusing namespace au;\n' + "\n".join(decls) + "\n"
    # 1. read-out of the unit descriptors
    src = ctx.write("punits.cc", pre + "int main() {\n" + "\n".join("  auv::punit<%s>(%d);" % (t, i + 1) for i, (_n, t) in enumerate(pool)) + "\n  return 0;\n}\n")
    exe = ctx.path("punits")
    rc, out = ctx.cxx(src, exe, cfg="g14", opt="-O0", flags=[core.HARNESS + "/noub.cc"])
    if rc != 0:
        raise core.ToolError("point unit read-out does not compile:\n" + out[-2000:])
    descs = sorted(ctx.run_ndjson(exe), key=lambda r: r["id"])
    up = ctx.path("punits.ndjson")
    with open(up, "w") as f:
        for d in descs:
            f.write(json.dumps(d) + "\n")
    g = ctx.tlc("Gen_Point.tla", env={"UNITS": up}, timeout=900, name="affine contracts")
    if not g.ok or len(g.cases) != g.distinct or not g.cases:
        raise core.ToolError("Gen_Point failed\n" + g.out[-1500:])
    con = {(c["i"], c["j"]): c for c in g.cases}
    # 2. instances
    convs, mixeds = [], []
    for i in range(1, len(pool) + 1):
        for j in range(1, len(pool) + 1):
            if i == j:
                continue
            cat_pair = i <= ncat and j <= ncat
            reps = [("i64", "i64"), ("i32", "i64")] + ([("i32", "i32"), ("u32", "i32")] if cat_pair and "kK" not in (pool[i - 1][0], pool[j - 1][0]) else [])
            # widening / narrowing / floating destinations: the calculation type differs from the source rep
            reps += [("u32", "i64"), ("u32", "f64"), ("i16", "i32"), ("u16", "i32"), ("i32", "f64"), ("u32", "u16"), ("u64", "u32"), ("i8", "i32"), ("i16", "f32")][(i * 3 + j) % 3::3] if cat_pair else [("u32", "i64"), ("i32", "f64")][(i + j) % 2::2]
            for r1, r2 in reps:
                convs.append({"kind": "conv", "i": i, "j": j, "R1": r1, "R2": r2})
            if i < j:
                mixeds.append({"kind": "mixed", "i": i, "j": j, "R": "i64", "R2": "i64"})
            if cat_pair and "kK" not in (pool[i - 1][0], pool[j - 1][0]):
                # mixed reps (catalogue temperature units only: every scaled value stays far inside the common rep)
                # (the last four have an unsigned common rep: an ordering decided through a difference would wrap there)
                for r1, r2 in (("u16", "i32"), ("i16", "i64"), ("i32", "i64"), ("i32", "i16"), ("u32", "u32"), ("u16", "u32"), ("u64", "u32"), ("u8", "u16")):
                    mixeds.append({"kind": "mixed", "i": i, "j": j, "R": r1, "R2": r2})
    # unsigned sources with the top bit set into narrower unsigned destinations, same origin (pure scaling down): always included
    must = []
    name_idx = {nm: k + 1 for k, (nm, _t) in enumerate(pool)}
    for (u1, u2) in (("mK", "kK"), ("mK", "Kelvins"), ("Kelvins", "kK"), ("mC", "cC"), ("mC", "Celsius"), ("mF", "Fahrenheit")):
        for rp in (("u32", "u16"), ("u64", "u32"), ("u32", "u8"), ("u64", "u16")):
            must.append({"kind": "conv", "i": name_idx[u1], "j": name_idx[u2], "R1": rp[0], "R2": rp[1]})
    convs = [c for c in convs if not any(c["i"] == m["i"] and c["j"] == m["j"] and c["R1"] == m["R1"] and c["R2"] == m["R2"] for m in must)]
    if ctx.tier == "quick":
        rnd.shuffle(convs)
        convs = [c for c in convs if c["i"] <= 3 and c["j"] <= 3] + convs[:90]
        rnd.shuffle(mixeds)
        mixeds = [m for m in mixeds if m["j"] <= 3 and m["i"] <= 3] + [m for m in mixeds if m["R"][0] == "u" and m["R2"][0] == "u"][:24] + mixeds[:30]
    convs = must + convs

    def make_src(b):
        L = [pre, "int main(int argc, char **argv) {", "  uint64_t seed = argc > 1 ? (uint64_t)std::atoll(argv[1]) : 1;"]
        for c in b:
            k = con[(c["i"], c["j"])]
            t1, t2 = pool[c["i"] - 1][1], pool[c["j"] - 1][1]
            if c["kind"] == "conv":
                lo = (-40000 if c["R1"] not in ("i8", "i16") else -(1 << (int(c["R1"][1:]) - 1))) if c["R1"][0] == "i" else 0
                L.append('  auv::pconv<%s, %s, %s, %s>(%d, %d, "%s", "%s", "%s", %dLL, %dLL, seed);' % (t1, CXX_T[c["R1"]], t2, CXX_T[c["R2"]], c["i"], c["j"], k["A"], k["B"], k["C"], lo, {"i8": 127, "i16": 32767, "u16": 65535}.get(c["R1"], 400000 if c["R2"] in ("i64", "f64") else 40000)))
                if c in must:
                    L[-1] = L[-1].replace("%dLL, seed);" % 40000, "4000000000LL, seed);")
            else:
                L.append('  auv::pmixed<%s, %s, %s, %s>(%d, %d, "%s", "%s", "%s", "%s", seed);' % (t1, t2, CXX_T[c["R"]], CXX_T[c["R2"]], c["i"], c["j"], k["pa1"], k["pb1"], k["pa2"], k["pb2"]))
        return "\n".join(L + ["  return 0;", "}"]) + "\n"
    cfgs = ["c20", "g14"] if ctx.tier == "quick" else ["c20", "g14", "c14", "g20"]
    recs, dropped, nprog = core.harness_farm(ctx, {"conv": convs, "mixed": mixeds}, make_src, cfgs, [str(ctx.seed)], batch=6, tag="pt")
    policy = [d for d in dropped if "Dangerous conversion" in d[2] or "Cannot represent origin displacement" in d[2]]
    other = [d for d in dropped if d not in policy]
    for d in other:
        if not core.first_error_in_au(d[2]):
            raise core.ToolError("point harness does not compile (generator bug?): %s" % d[2][:800])
        ctx.violation({"i": pool[d[0]["i"] - 1][0], "j": pool[d[0]["j"] - 1][0], "kind": d[0]["kind"] + "-rejected"},
                      "point %s between %s and %s does not compile [%s]: %s" % (d[0]["kind"], pool[d[0]["i"] - 1][0], pool[d[0]["j"] - 1][0], d[1], d[2][:300]), detail=decls)
    obs = [r for r in recs if r["k"] in ("pconv", "pmixed")]
    sums = [r for r in recs if r["k"] == "ptsum"]
    ctx.evaluations += sum(s["n"] for s in sums)
    ctx.nontrivial += sum(s["exact"] for s in sums if s["cfg"] == cfgs[0])
    ctx.log("swept %d point operations in %d programs; %d records to TLC; %d instances rejected by the conversion policy (outside the domain)" % (sum(s["n"] for s in sums), nprog, len(obs), len(policy)))
    nval, bad = ctx.tlc_batch_validate("Trace_Point.tla", obs, name="point", shards=core.NCPU, env_extra={"UNITS": up})
    badk = set()
    for b in bad:
        r = b["rec"]
        key = {"U1": pool[r["i"] - 1][0], "U2": pool[r["j"] - 1][0], "x": str(wire_to_int(r["x"])), "kind": r["k"]}
        if r["k"] == "pmixed":
            key["y"] = str(wire_to_int(r["y"]))
        badk.add(json.dumps(key, sort_keys=True) + r["cfg"])
        ctx.violation(key, "point %s %s -> %s: %s [%s]; generated units: %s" % (
            "conversion" if r["k"] == "pconv" else "mixed operations", key["U1"], key["U2"],
            {k: ((core.fval(v) if "cls" in v else wire_to_int(v)) if isinstance(v, dict) else v) for k, v in r.items() if k not in ("dmag", "smag", "k", "cfg")}, r["cfg"], decls), detail=b)
    for r in obs:
        if r["why"] == "mismatch":
            key = {"U1": pool[r["i"] - 1][0], "U2": pool[r["j"] - 1][0], "x": str(wire_to_int(r["x"])), "kind": r["k"]}
            if r["k"] == "pmixed":
                key["y"] = str(wire_to_int(r["y"]))
            if json.dumps(key, sort_keys=True) + r["cfg"] not in badk:
                raise core.ToolError("comparator mismatch not confirmed by TLC: %s" % r)
    # 3. forbidden operations
    ppre = '#include "au/au.hh"\n#include "au/units/kelvins.hh"\n#include "au/units/celsius.hh"\n#include "au/math.hh"\nusing namespace au;\n'
    pch = {cfg: ctx.pch(cfg, "c09", ppre) for cfg in cfgs[:2]}

    def probe(p):
        name, stmt, expect = p
        res = []
        for cfg in cfgs[:2]:
            s = ctx.write("ptp_%s_%s.cc" % (cfg, name.replace("/", "_").replace("<", "lt").replace("=", "eq").replace("*", "x").replace("+", "plus")),
                          "void f(QuantityPoint<Kelvins, int> p, QuantityPoint<Celsius, int> p2) { %s }\nint main() {}\n" % stmt)
            rc, o = ctx.cxx(s, cfg=cfg, syntax_only=True, opt="-O0", flags=pch[cfg])
            res.append((cfg, rc == 0, [l for l in o.splitlines() if "error" in l][:2]))
        return p, res
    for (name, stmt, expect), outs in ctx.pmap(probe, [(n, s, False) for n, s in FORBIDDEN] + [(n, s, True) for n, s in TWINS]):
        for cfg, ok, diag in outs:
            if ok != expect:
                ctx.violation({"probe": name, "kind": "accepted" if ok else "rejected"}, "'%s' compiles=%s but must %s [%s] %s" % (stmt, ok, "compile" if expect else "be rejected", cfg, " | ".join(diag)[:300]), detail=stmt)
    ctx.programs += 2 * (len(FORBIDDEN) + len(TWINS))
    for r in obs[:2] + [o for o in obs if o["k"] == "pmixed"][:1]:
        ctx.sample({k: ((core.fval(v) if "cls" in v else wire_to_int(v)) if isinstance(v, dict) else v) for k, v in r.items() if k not in ("dmag", "smag")})
    ctx.layers["BC"] = {"point_units": [p[0] for p in pool], "generated": decls, "conversion_instances": len(convs), "mixed_instances": len(mixeds),
                        "records_validated_by_TLC": nval, "forbidden_probes": len(FORBIDDEN), "twins": len(TWINS), "configs": cfgs}
