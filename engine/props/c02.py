"""C02: unit algebra is exact and canonical."""
import json
import os
import random
import re
import shutil

from .. import core, unitcat
from ..unitexpr import Speller, expr_str


def prep_specs(ctx, cat, pre, names):
    unitcat.write_catalogue_tla(ctx, cat, sorted(cat), pre)
    for n in names:
        shutil.copy(os.path.join(core.SPEC, n), ctx.scratch)


PRELUDE = '''#include "au/au.hh"
%s
#include <type_traits>
using namespace au;
template <class X> using AU_ = AssociatedUnitT<std::remove_cv_t<std::remove_reference_t<X>>>;
// unit_ratio(A, B) == ONE, answered as a trait (false when the ratio does not even exist), so that a wrong dimension is an
// assertion failure naming the case rather than a hard error
template <class...> using auv_vt = void;
template <class A, class B, class = void> struct RatioIsOne : std::false_type {};
template <class A, class B> struct RatioIsOne<A, B, auv_vt<decltype(unit_ratio(A{}, B{}))>> : stdx::bool_constant<(unit_ratio(A{}, B{}) == mag<1>())> {};
'''


def key_of(lst):
    return json.dumps(sorted(lst, key=lambda x: str(x["b"])), sort_keys=True)


def run(ctx):
    ctx.rule = ("Layer A: every expression of depth <= 2 over an 8-unit universe from the real catalogue (powers, scalings, prefixes, products, "
                "quotients) and one rewriting step by an algebraic identity (commute, a/b = a*b^-1, distribute a power, power of power, "
                "re-associate, multiply-and-cancel): implementation-shaped normal form = denotation, identities preserve denotation, pure "
                "products/powers keep the identical type, the ordering gauntlet is a strict total order.  Layer B: TLC emits every depth-1 "
                "form of all 57 library units x 32 prefixes and all depth-2 products/quotients over a 6-unit universe with their "
                "denotation; each is compiled in up to six spellings (unit instances, unit types, quantity makers, singular names, symbols, "
                "constants) and asserted equivalent to a reference unit built from base units with the emitted exponents, identical in type "
                "within AC-classes, and inequivalent across classes.  Layer C: the compiled units' dimension/magnitude packs are read out "
                "and judged by TLC against the denotation.  Non-trivial = expressions that are not a bare named unit.")
    ctx.assumptions += ["unit definitions are inputs (catalogue extracted from the tree)", "g++/clang++ verdicts on static_asserts",
                        "expressions multiplying two distinct unit types of identical dimension, magnitude and origin are excluded (documented limitation)"]
    cat, pre = unitcat.extract(ctx)
    for b in unitcat.check_prefixes(ctx, pre, "mag"):
        ctx.violation({"kind": "prefix", "prefix": b["prefix"]}, "the prefix %s does not scale by its SI / IEC factor (read out of %s<Meters>)" % (b["prefix"], b["prefix"][0].upper() + b["prefix"][1:]), detail=b)
    for b in unitcat.check_base_dims(ctx, cat):
        ctx.violation({"kind": "base units share a dimension", "unit": b["id"], "with": b["with"]},
                      "the base unit %s %s: %s" % (b["id"], ("and " + b["with"]) if b["with"] else "", b["why"]), detail=b)
    for idx, names in unitcat.base_dim_collisions(ctx):
        ctx.violation({"kind": "base dimensions indistinguishable", "names": names},
                      "the distinct base dimensions %s share the index %d: products and quotients mixing them cancel, so units of different dimension become "
                      "interchangeable (e.g. a unit of %s per %s is treated as dimensionless)" % (" and ".join(names), idx, names[0], names[1]), detail=names)
    prep_specs(ctx, cat, pre, ["MC_Units.tla", "Gen_Units.tla", "Trace_Units.tla", "Trace_Units.cfg"])
    ids_a = ["Meters", "Feet", "Seconds", "Kelvins", "Celsius"] + ([] if ctx.tier == "quick" else ["Hertz", "Radians", "Degrees"])
    cfg = ctx.write("MC_Units.cfg", 'CONSTANTS Cat <- CatDef Pre <- PrefixDef Small0 = %s\n Ids = {%s}\nSPECIFICATION Spec\nINVARIANTS Exact RewriteSound Canonical OrderTotal\n' % ("TRUE" if ctx.tier == "quick" else "FALSE", ", ".join('"%s"' % i for i in ids_a)))
    import concurrent.futures as _cf
    _ex = _cf.ThreadPoolExecutor(max_workers=1)
    _fa = _ex.submit(lambda: ctx.tlc(ctx.path("MC_Units.tla"), cfg=cfg, timeout=2400, name="layerA units", coverage=True, allow_violation=True, workers=6))

    def finish_layer_a():
        a = _fa.result()
        if a.violated:
            raise core.ToolError("Layer A: invariant %s of MC_Units fails\n%s" % (a.violated, "\n".join(a.out.splitlines()[-30:])))
        zero = [k for k in ("Commute", "DivAsInverse", "DistributePower", "PowerOfPower", "Reassociate", "MultiplyAndCancel") if a.coverage.get(k, (0, 0))[0] == 0]
        if zero:
            raise core.ToolError("Layer A vacuity: %s never taken" % zero)
        ctx.layers["A"] = {"module": "MC_Units.tla (Units.tla)", "universe": ids_a, "distinct": a.distinct, "exhaustive": True,
                           "actions": {k: v[0] for k, v in a.coverage.items()}}
    ids2 = ["Meters", "Feet", "Seconds", "Hertz", "Celsius", "Kelvins"] if ctx.tier == "thorough" else ["Meters", "Feet", "Seconds", "Celsius", "Kelvins"]
    gcfg = ctx.write("Gen_Units.cfg", 'CONSTANTS Cat <- CatDef Pre <- PrefixDef\n Ids2 = {%s}\nINIT Init\nNEXT Next\nINVARIANT Emit\n' % ", ".join('"%s"' % i for i in ids2))
    g = ctx.tlc(ctx.path("Gen_Units.tla"), cfg=gcfg, timeout=1800, name="gen unit expressions")
    if not g.ok or len(g.cases) != g.distinct or not g.cases:
        raise core.ToolError("Gen_Units failed\n" + g.out[-1500:])
    cases = [c for c in g.cases if not c["excluded"]]
    n_excl = len(g.cases) - len(cases)
    rnd = random.Random(ctx.seed)
    if ctx.tier == "quick":
        d2 = [c for c in cases if c["e"]["op"] in ("mul", "div")]
        rest = [c for c in cases if c["e"]["op"] not in ("mul", "div")]
        rnd.shuffle(d2)
        cases = rest + d2[:2600]
    sp = Speller(cat)
    for i, c in enumerate(cases):
        c["i"] = i
        c["dk"], c["mk"] = key_of(c["dim"]), key_of(c["mag"])
        c["nk"] = key_of(c["named"]) if c["pure"] else None
    # order: AC-classes adjacent, then by denotation
    cases.sort(key=lambda c: (c["nk"] or "~", c["dk"], c["mk"], c["i"]))
    cfgs = core.QUICK_CONFIGS if ctx.tier == "quick" else core.ALL_CONFIGS
    chunk = 120
    chunks = [cases[k:k + chunk] for k in range(0, len(cases), chunk)]
    hdrs = "\n".join('#include "%s"' % h for h in sp.headers()) + '\n#include "au/prefix.hh"\n#include "au/constant.hh"'
    stats = {"spellings": 0, "same_type_pairs": 0, "negative_pairs": 0}

    def tu(chunk_cases, with_asserts=True):
        L = [PRELUDE % hdrs]
        prev = None
        for c in chunk_cases:
            i, e = c["i"], c["e"]
            L.append("using I%d = AU_<decltype(%s)>;" % (i, sp.inst(e)))
            ref = sp.reference(c["dim"], c["mag"])
            if ref:
                L.append('static_assert(are_units_quantity_equivalent(I%d{}, %s), "c%d ref-equivalent");' % (i, ref, i))
                L.append('static_assert(RatioIsOne<I%d, std::remove_cv_t<decltype(%s)>>::value, "c%d ref-ratio");' % (i, ref, i))
            for tag, s in (("type", sp.type(e)), ("maker", sp.maker(e)), ("symbol", sp.symbol(e)), ("constant", sp.constant(e)), ("singular", sp.singular(e))):
                if s is None:
                    continue
                stats["spellings"] += 1
                x = "%s" % s if tag == "type" else "AU_<decltype(%s)>" % s
                if c["pure"]:
                    L.append('static_assert(std::is_same<%s, I%d>::value, "c%d spelling-%s same-type");' % (x, i, i, tag))
                else:
                    L.append('static_assert(are_units_quantity_equivalent(%s{}, I%d{}), "c%d spelling-%s equivalent");' % (x, i, i, tag))
            if prev is not None:
                j = prev["i"]
                if c["nk"] is not None and c["nk"] == prev["nk"]:
                    stats["same_type_pairs"] += 1
                    L.append('static_assert(std::is_same<I%d, I%d>::value, "c%d ac-equal-identical-type c%d");' % (i, j, i, j))
                elif c["dk"] != prev["dk"]:
                    stats["negative_pairs"] += 1
                    L.append('static_assert(!has_same_dimension(I%d{}, I%d{}), "c%d different-dimension c%d");' % (i, j, i, j))
                elif c["mk"] != prev["mk"]:
                    stats["negative_pairs"] += 1
                    L.append('static_assert(!are_units_quantity_equivalent(I%d{}, I%d{}), "c%d not-equivalent c%d");' % (i, j, i, j))
                    L.append('static_assert(!RatioIsOne<I%d, I%d>::value, "c%d ratio-not-one c%d");' % (i, j, i, j))
                else:
                    L.append('static_assert(are_units_quantity_equivalent(I%d{}, I%d{}), "c%d same-denotation-equivalent c%d");' % (i, j, i, j))
            prev = c
        L.append("int main() {}")
        return "\n".join(L) + "\n"
    # "equivalent iff dimension AND magnitude coincide": pairs with the same magnitude but different dimensions
    bymag = {}
    for c in cases:
        bymag.setdefault(c["mk"], {}).setdefault(c["dk"], c)
    cross = []
    for mk, d in sorted(bymag.items()):
        lst = [d[k] for k in sorted(d)][:6]
        cross += [(lst[k], lst[k + 1]) for k in range(len(lst) - 1)]
    rnd.shuffle(cross)
    cross = cross[:400 if ctx.tier == "quick" else 3000]

    def cross_tu(pairs):
        L = [PRELUDE % hdrs]
        for n, (a, b) in enumerate(pairs):
            L.append("using XA%d = AU_<decltype(%s)>; using XB%d = AU_<decltype(%s)>;" % (n, sp.inst(a["e"]), n, sp.inst(b["e"])))
            L.append('static_assert(!are_units_quantity_equivalent(XA%d{}, XB%d{}) && !are_units_quantity_equivalent(XB%d{}, XA%d{}), "c%d cross-dimension-not-equivalent c%d");' % (n, n, n, n, a["i"], b["i"]))
            L.append('static_assert(!AreUnitsQuantityEquivalent<XA%d, XB%d>::value && !AreUnitsPointEquivalent<XA%d, XB%d>::value, "c%d cross-dimension-not-equivalent c%d");' % (n, n, n, n, a["i"], b["i"]))
        return "\n".join(L + ["int main() {}"]) + "\n"
    byi = {c["i"]: c for c in cases}
    ncomp = [0]

    def compile_chunk(job):
        lst, cfg = job
        ncomp[0] += 1
        is_cross = bool(lst) and isinstance(lst[0], tuple)
        src = ctx.write("units_%s_%d.cc" % (cfg, ncomp[0]), cross_tu(lst) if is_cross else tu(lst))
        rc, out = ctx.cxx(src, cfg=cfg, syntax_only=True, opt="-O0", flags=(["-ferror-limit=0"] if cfg.startswith("c") else ["-fmax-errors=0"]))
        if rc == 0:
            return []
        fails = re.findall(r'static.assert(?:ion)? failed[^\n"]*"?(c\d+ [a-z\-]+[^"\n]*)', out)
        errs = [l for l in out.splitlines() if "error" in l]
        hard = [l for l in errs if "static assertion failed" not in l and "static_assert failed" not in l]
        res = [("assert", f.strip().rstrip('"'), cfg, "") for f in sorted(set(fails))]
        if hard:
            if len(lst) == 1 or ncomp[0] > 40 * len(chunks):
                res.append(("hard", "c%d" % (lst[0][0]["i"] if is_cross else lst[0]["i"]), cfg, "\n".join(hard[:4])))
            else:
                h = len(lst) // 2
                return compile_chunk((lst[:h], cfg)) + compile_chunk((lst[h:], cfg))
        return res
    jobs = [(ch, cfg) for ch in chunks for cfg in cfgs] + [(cross[k:k + 100], cfg) for k in range(0, len(cross), 100) for cfg in cfgs]
    stats["cross_dimension_pairs"] = len(cross)
    fails = [f for lst in ctx.pmap(compile_chunk, jobs) for f in lst]
    ctx.programs += ncomp[0]
    ctx.log("unit expressions: %d cases (%d excluded), %d chunks x %s, %d compiles, %d failures" % (len(cases), n_excl, len(chunks), cfgs, ncomp[0], len(fails)))
    for kind, what, cfg, diag in fails:
        m = re.match(r"c(\d+)\s*(.*)", what)
        c = byi[int(m.group(1))]
        if kind == "hard":
            if not core.first_error_in_au(diag):
                raise core.ToolError("generated unit program does not compile (generator bug?): %s" % diag[:800])
            ctx.violation({"expr": expr_str(c["e"]), "kind": "rejected"}, "valid unit expression %s is rejected [%s]: %s" % (expr_str(c["e"]), cfg, diag[:300]), detail=c)
        else:
            ctx.violation({"expr": expr_str(c["e"]), "kind": m.group(2).split(" c")[0]},
                          "unit expression %s: assertion '%s' fails [%s]" % (expr_str(c["e"]), m.group(2), cfg), detail=c)
    # ---- Layer C: read-out of the packs, judged by TLC against the denotation
    ro_cases = cases if ctx.tier == "thorough" else cases[::3]

    def ro_src(b):
        L = ['#include "unit_readout.hh"', PRELUDE % hdrs,
             "template <typename B> struct KeyOf { static long long get() { return 2 * (long long)B::value(); } };",
             "template <> struct KeyOf<Pi> { static long long get() { return 7; } };",
             "template <typename P> struct MagKeys; template <> struct MagKeys<Magnitude<>> { static std::string get() { return \"\"; } };",
             "template <typename BP, typename... R> struct MagKeys<Magnitude<BP, R...>> { static std::string get() { std::string t = \"{\\\"b\\\":\" + std::to_string(KeyOf<BaseT<BP>>::get()) + \",\\\"n\\\":\" + std::to_string((long long)ExpT<BP>::num) + \",\\\"d\\\":\" + std::to_string((long long)ExpT<BP>::den) + \"}\"; std::string r = MagKeys<Magnitude<R...>>::get(); return r.empty() ? t : t + \",\" + r; } };",
             "int main() {"]
        for c in b:
            L.append('  { using U = AU_<decltype(%s)>; std::printf("{\\"k\\":\\"ro\\",\\"i\\":%d,\\"dim\\":%%s,\\"mag\\":[%%s]}\\n", auv::unit_dim_json<U>().c_str(), MagKeys<detail::MagT<U>>::get().c_str()); }' % (sp.inst(c["e"]), c["i"]))
        return "\n".join(L + ["  return 0;", "}"]) + "\n"
    recs, dropped, nprog = core.harness_farm(ctx, {"ro": ro_cases}, ro_src, [cfgs[0]], [], batch=150, tag="uro", opt="-O0")
    if dropped:
        ctx.model_drift("read-out TU does not compile (internal names moved?): %s" % dropped[0][2][:300])
    obs = [{"e": byi[r["i"]]["e"], "dim": r["dim"], "mag": r["mag"], "i": r["i"]} for r in recs if r.get("k") == "ro"]
    nval, bad = (0, [])
    if obs:
        nval, bad = ctx.tlc_batch_validate(ctx.path("Trace_Units.tla"), obs, name="units", shards=min(core.NCPU, 8))
    for b in bad:
        c = byi[b["rec"]["i"]]
        ctx.violation({"expr": expr_str(c["e"]), "kind": "exponents"}, "unit expression %s has dimension/magnitude exponents %s / %s, the algebra demands %s / %s" % (
            expr_str(c["e"]), b["rec"]["dim"], b["rec"]["mag"], c["dim"], c["mag"]), detail=b)
    ctx.evaluations += len(cases) * len(cfgs) + len(obs)
    ctx.nontrivial = len([c for c in cases if c["e"]["op"] != "unit"])
    for c in cases[:1] + cases[len(cases) // 2:len(cases) // 2 + 2]:
        ctx.sample({"expr": expr_str(c["e"]), "dim": c["dim"], "mag": c["mag"], "pure": c["pure"]})
    ctx.layers["B"] = dict(stats, cases=len(cases), excluded=n_excl, configs=cfgs, compiles=ncomp[0])
    ctx.layers["C"] = {"readouts_validated_by_TLC": nval}
    finish_layer_a()
