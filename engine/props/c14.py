"""C14: products, quotients and powers combine values raw-wise and units algebraically."""
import random
import re

from .. import core, unitcat
from ..convcheck import CXX_T
from ..core import wire_to_int
from ..unitexpr import Speller, expr_str, mag_from_den
from .c02 import prep_specs

PRELUDE = '''#include "au/au.hh"
%s
#include <type_traits>
using namespace au;
'''


def run(ctx):
    ctx.rule = ("TLC gives, for every ordered pair of unit expressions from the catalogue, the denotation of product and quotient, whether they are "
                "exactly unitless (collapse to a raw number), whether the pair is quantity-equivalent (integer-division guard), and per unit "
                "whether it is dimensionless / policy-safe for as_raw_number.  Compiled assertions: decltype(a*b), decltype(a/b) is a raw arithmetic "
                "type exactly when the specification says collapse, otherwise a Quantity of a unit equivalent to the base-unit reference, with the "
                "raw operator's rep; powers -4..4 and roots 2, 3 have the power unit; guards as failing probes with unblock_int_div twins; "
                "as_raw_number accepted/rejected as predicted.  Values: exhaustive 8-bit operand pairs and boundary/random wider ones next to the "
                "raw operator / std::sqrt / std::cbrt (bit comparison), sampled records judged by TLC.  Non-trivial = pairs whose product or "
                "quotient cancels partially or completely, and all guard probes.")
    ctx.assumptions += ["unit definitions are inputs (catalogue)", "int_pow on floating reps is compared with the exact power to 4 ulps (the library multiplies repeatedly)"]
    cat, pre = unitcat.extract(ctx)
    prep_specs(ctx, cat, pre, ["Gen_Products.tla", "Gen_Products.cfg"])
    g = ctx.tlc(ctx.path("Gen_Products.tla"), env={"TIER": ctx.tier}, timeout=1800, name="products/quotients")
    if not g.ok or len(g.cases) != g.distinct or not g.cases:
        raise core.ToolError("Gen_Products failed\n" + g.out[-1500:])
    pairs = [c for c in g.cases if not c["broken"]]
    sp = Speller(cat)
    hdrs = "\n".join('#include "%s"' % h for h in sp.headers()) + '\n#include "au/prefix.hh"'
    cfgs = core.QUICK_CONFIGS if ctx.tier == "quick" else core.ALL_CONFIGS
    pch = {cfg: ctx.pch(cfg, "c14", PRELUDE % hdrs) for cfg in cfgs}
    for i, c in enumerate(pairs):
        c["i"] = i

    def type_tu(lst):
        L = []
        for c in lst:
            i = c["i"]
            L.append("namespace p%d { using U1 = std::remove_cv_t<decltype(%s)>; using U2 = std::remove_cv_t<decltype(%s)>;" % (i, sp.inst(c["e1"]), sp.inst(c["e2"])))
            L.append("using P = decltype(std::declval<Quantity<U1, double>>() * std::declval<Quantity<U2, float>>());")
            L.append("using Q = decltype(std::declval<Quantity<U1, double>>() / std::declval<Quantity<U2, float>>());")
            L.append("using PI = decltype(std::declval<Quantity<U1, int16_t>>() * std::declval<Quantity<U2, int8_t>>());")
            for nm, t, coll, dim, mag in (("product", "P", c["pcollapse"], c["pdim"], c["pmag"]), ("quotient", "Q", c["qcollapse"], c["qdim"], c["qmag"])):
                if coll:
                    L.append('static_assert(std::is_same<%s, double>::value, "k%d %s collapses-to-raw-number");' % (t, i, nm))
                else:
                    ref = sp.reference(dim, mag)
                    L.append('static_assert(!std::is_arithmetic<%s>::value, "k%d %s stays-a-quantity");' % (t, i, nm))
                    L.append('template <class T, bool = std::is_arithmetic<T>::value> struct Chk%s { static constexpr bool value = false; };' % t)
                    L.append('template <class T> struct Chk%s<T, false> { static constexpr bool value = std::is_same<typename T::Rep, double>::value && are_units_quantity_equivalent(typename T::Unit{}, %s); };' % (t, ref or "typename T::Unit{}"))
                    L.append('static_assert(Chk%s<%s>::value, "k%d %s unit-and-rep");' % (t, t, i, nm))
            L.append('static_assert(std::is_same<%s, int>::value, "k%d int-product rep");' % ("PI" if c["pcollapse"] else "typename std::conditional_t<std::is_arithmetic<PI>::value, Quantity<U1, void*>, PI>::Rep", i))
            L.append("}")
        return "\n".join(L) + "\nint main() {}\n"
    byi = {c["i"]: c for c in pairs}
    ncomp = [0]
    chunks = [pairs[k:k + 60] for k in range(0, len(pairs), 60)]

    def comp(job):
        lst, cfg = job
        ncomp[0] += 1
        src = ctx.write("prod_%s_%d.cc" % (cfg, ncomp[0]), type_tu(lst))
        rc, out = ctx.cxx(src, cfg=cfg, syntax_only=True, opt="-O0", flags=pch[cfg] + (["-ferror-limit=0"] if cfg.startswith("c") else ["-fmax-errors=0"]))
        if rc == 0:
            return []
        fails = set(re.findall(r'"?k(\d+) ([a-z\-]+) ([a-z\-]+)', out))
        errs = [l for l in out.splitlines() if "error" in l]
        hard = [l for l in errs if not re.search(r'k\d+ [a-z\-]+ [a-z\-]+', l)]
        res = [("assert", int(i), a + " " + b, cfg, "") for i, a, b in fails]
        if hard and not fails:
            if len(lst) == 1:
                res.append(("hard", lst[0]["i"], "rejected", cfg, "\n".join(hard[:4])))
            else:
                h = len(lst) // 2
                return comp((lst[:h], cfg)) + comp((lst[h:], cfg))
        return res
    fails = [f for lst in ctx.pmap(comp, [(c, cfg) for c in chunks for cfg in cfgs]) for f in lst]
    ctx.programs += ncomp[0]
    for kind, i, what, cfg, diag in fails:
        c = byi[i]
        if kind == "hard" and not core.first_error_in_au(diag):
            raise core.ToolError("generated product TU does not compile (generator bug?): %s" % diag[:600])
        ctx.violation({"U1": expr_str(c["e1"]), "U2": expr_str(c["e2"]), "kind": what}, "%s x %s: %s [%s] %s" % (expr_str(c["e1"]), expr_str(c["e2"]), what, cfg, diag[:300]), detail=c)
    ctx.log("type-level: %d pairs, %d compiles, %d failures" % (len(pairs), ncomp[0], len(fails)))
    # ---- powers/roots of single units, guards, as_raw_number: probes
    singles = {}
    for c in pairs:
        singles.setdefault(expr_str(c["e1"]), c)
    rnd = random.Random(ctx.seed)
    probes = []   # (name, body, expect_compiles, key)
    for name, c in singles.items():
        u = sp.inst(c["e1"])
        decl = "using U1 = std::remove_cv_t<decltype(%s)>; " % u
        pw = "".join('static_assert(std::is_same<decltype(int_pow<%d>(std::declval<Quantity<U1, double>>()))::Unit, UnitPowerT<U1, %d>>::value, "pow%d");' % (n, n, n) for n in range(-4, 5))
        pw += 'static_assert(std::is_same<decltype(sqrt(std::declval<Quantity<U1, double>>()))::Unit, UnitPowerT<U1, 1, 2>>::value, "sqrt");'
        pw += 'static_assert(std::is_same<decltype(cbrt(std::declval<Quantity<U1, double>>()))::Unit, UnitPowerT<U1, 1, 3>>::value, "cbrt");'
        pw += 'static_assert(std::is_same<decltype(1.0 / std::declval<Quantity<U1, double>>())::Unit, UnitInverseT<U1>>::value, "inverse");'
        pw += 'static_assert(std::is_same<decltype(int_pow<3>(std::declval<Quantity<U1, int>>()))::Rep, int>::value, "int-pow rep");'
        probes.append(("powers", decl + pw, True, {"U": name, "op": "powers"}))
        probes.append(("negative-int-pow", decl + "auto r = int_pow<-1>(Quantity<U1, int>{});", False, {"U": name, "op": "int_pow<-1> on int"}))
        # as_raw_number
        probes.append(("as_raw_number-double", decl + "auto r = as_raw_number(Quantity<U1, double>{}); static_assert(std::is_same<decltype(r), double>::value || !std::is_arithmetic<decltype(r)>::value, \"\"); (void)r;", bool(c["dimless1"]), {"U": name, "op": "as_raw_number<double>"}))
        intsafe = c["dimless1"] and all(m["d"] == 1 and m["n"] > 0 and m["b"] != 7 for m in c["mag1"])
        # policy-safe into int: magnitude an integer k with 2147*k <= INT_MAX (k <= 1000225); our dimensionless catalogue magnitudes are tiny or fractional
        probes.append(("as_raw_number-int", decl + "auto r = as_raw_number(Quantity<U1, int>{}); (void)r;", bool(intsafe), {"U": name, "op": "as_raw_number<int>"}))
        probes.append(("scalar-div-int", decl + "auto r = 3 / Quantity<U1, int>{};", bool(c["unitless1"]), {"U": name, "op": "int / integral quantity"}))
        probes.append(("scalar-div-int-unblocked", decl + "auto r = 3 / unblock_int_div(Quantity<U1, int>{});", True, {"U": name, "op": "int / unblock_int_div"}))
        probes.append(("scalar-div-double", decl + "auto r = 3.0 / Quantity<U1, int>{};", True, {"U": name, "op": "double / integral quantity"}))
    gp = [c for c in pairs]
    rnd.shuffle(gp)
    gp = sorted(gp[: (70 if ctx.tier == "quick" else 600)], key=lambda c: c["i"]) + [c for c in pairs if c["equiv"] and expr_str(c["e1"]) != expr_str(c["e2"])][:10]
    for c in gp:
        decl = "using U1 = std::remove_cv_t<decltype(%s)>; using U2 = std::remove_cv_t<decltype(%s)>; " % (sp.inst(c["e1"]), sp.inst(c["e2"]))
        key = {"U1": expr_str(c["e1"]), "U2": expr_str(c["e2"])}
        probes.append(("int-div", decl + "auto r = Quantity<U1, int>{} / Quantity<U2, int64_t>{};", bool(c["equiv"]), dict(key, op="integral / integral")))
        probes.append(("int-div-unblocked", decl + "auto r = Quantity<U1, int>{} / unblock_int_div(Quantity<U2, int64_t>{});", True, dict(key, op="integral / unblock_int_div")))
        probes.append(("mixed-div", decl + "auto r = Quantity<U1, int>{} / Quantity<U2, double>{};", True, dict(key, op="integral / floating")))

    def probe(p):
        name, body, expect, key = p
        out = []
        for cfg in cfgs[:2]:
            src = ctx.write("pp_%s_%s_%d.cc" % (cfg, name, abs(hash(body)) % 10**9), "%s\nint main() {}\n" % _wrap(body))
            rc, o = ctx.cxx(src, cfg=cfg, syntax_only=True, opt="-O0", flags=pch[cfg])
            out.append((cfg, rc == 0, [l for l in o.splitlines() if "error" in l][:2]))
        return p, out

    def _wrap(body):
        # `using ...;` declarations first (namespace scope), statements inside a function
        parts = body.split("; ")
        usings = [x for x in parts if x.startswith("using ")]
        rest = "; ".join(x for x in parts if not x.startswith("using "))
        if rest.startswith("static_assert"):
            return ";\n".join(usings) + ";\n" + rest
        return ";\n".join(usings) + ";\nvoid f() { " + rest + " }"
    res = ctx.pmap(probe, probes)
    ctx.programs += len(probes) * 2
    nrej = 0
    for (name, body, expect, key), outs in res:
        for cfg, ok, diag in outs:
            if not expect:
                nrej += 1
            if not ok and not expect and not core.first_error_in_au(diag):
                raise core.ToolError("reject probe fails for a reason located in the generated code: %s\n%s" % (body, diag))
            if ok != expect:
                if expect and not core.first_error_in_au(diag):
                    raise core.ToolError("generated probe does not compile (generator bug?): %s\n%s" % (body, diag))
                ctx.violation(dict(key, kind="accepted" if ok else "rejected"), "'%s' for %s: compiles=%s, specification says %s [%s] %s" % (
                    key["op"], {k: v for k, v in key.items() if k != "op"}, ok, expect, cfg, " | ".join(diag)[:300]), detail=body)
    ctx.log("probes: %d (x2 configs), expected rejects %d" % (len(probes), nrej))
    # ---- values
    def make_src(b):
        L = ['#include "product_sweep.hh"', "int main(int argc, char **argv) {", "  uint64_t seed = argc > 1 ? (uint64_t)std::atoll(argv[1]) : 1;"]
        for r in b:
            if r[0] == "f":
                L.append("  auv::float_products<%s>(seed);" % CXX_T[r])
            else:
                L.append("  auv::int_products<%s>(seed); auv::int_powers<%s>();" % (CXX_T[r], CXX_T[r]))
        return "\n".join(L + ["  return 0;", "}"]) + "\n"
    recs, dropped, nprog = core.harness_farm(ctx, {r: [r] for r in CXX_T}, make_src, cfgs[:2] if ctx.tier == "quick" else cfgs, [str(ctx.seed)], batch=1, tag="prod")
    for d in dropped:
        if not core.first_error_in_au(d[2]):
            raise core.ToolError("product harness does not compile: %s" % d[2][:600])
        ctx.violation({"R": d[0], "kind": "operators-rejected"}, "product/quotient operators on rep %s do not compile [%s]: %s" % (d[0], d[1], d[2][:400]), detail=d[2])
    sums = [r for r in recs if r["k"] == "psum"]
    for r in recs:
        if r["k"] == "pmis":
            ctx.violation({"R": r["R"], "what": r["what"], "x": str(wire_to_int(r["x"])) if "l" in r["x"] else core.fval(r["x"])},
                          "%s on rep %s differs from the raw operator / std function [%s]: %s" % (r["what"], r["R"], r["cfg"], {k: v for k, v in r.items() if k not in ("k", "cfg")}), detail=r)
    for s in sums:
        if s["mismatches"] and not any(r["k"] in ("pmis", "raw") for r in recs):
            ctx.violation({"R": s["R"], "what": s["what"]}, "%d mismatches in %s" % (s["mismatches"], s["what"]), detail=s)
    obs = [r for r in recs if r["k"] == "raw"]
    nval, bad = ctx.tlc_batch_validate("Trace_Wrapper.tla", obs, name="products", shards=8)
    for b in bad:
        r, v = b["rec"], b["v"]
        ctx.violation({"op": r["op"], "R": r["R"], "x": str(wire_to_int(r["x"])), "y": str(wire_to_int(r["y"]))},
                      "quantity %s on %s(%d, %d) gives %d in rep %s; raw semantics: %s in rep %s [%s]" % (
                          r["op"], r["R"], wire_to_int(r["x"]), wire_to_int(r["y"]), wire_to_int(r["res"]), r["rrep"], v["expect"], v["rr"], r["cfg"]), detail=b)
    ctx.evaluations += sum(s["n"] for s in sums) + len(pairs) * len(cfgs) + len(probes) * 2
    ctx.nontrivial = len([c for c in pairs if c["pcollapse"] or c["qcollapse"] or c["equiv"]]) + nrej
    ctx.sample({"U1": expr_str(pairs[0]["e1"]), "U2": expr_str(pairs[0]["e2"]), "pcollapse": pairs[0]["pcollapse"], "qcollapse": pairs[0]["qcollapse"]})
    cc = [c for c in pairs if c["pcollapse"]][:1]
    for c in cc:
        ctx.sample({"U1": expr_str(c["e1"]), "U2": expr_str(c["e2"]), "pcollapse": True})
    ctx.layers["B"] = {"pairs": len(pairs), "compiles": ncomp[0], "probes": len(probes), "expected_rejects": nrej, "configs": cfgs}
    ctx.layers["C"] = {"value_operations": sum(s["n"] for s in sums), "records_validated_by_TLC": nval}
