"""C08: mixed-unit comparison, addition, subtraction and modulo are exact."""
import json

from .. import core
from ..convcheck import CXX_T
from ..core import wire_to_int

LAYER_A = {"quick": ("{Rep(4, TRUE), Rep(6, TRUE), Rep(4, FALSE), Rep(6, FALSE)}", "{<<1, 1>>, <<2, 1>>, <<3, 1>>, <<1, 2>>, <<2, 3>>}"),
           "thorough": ("{Rep(4, TRUE), Rep(6, TRUE), Rep(8, TRUE), Rep(4, FALSE), Rep(6, FALSE)}", "{<<1, 1>>, <<2, 1>>, <<3, 1>>, <<1, 2>>, <<2, 3>>, <<3, 2>>, <<6, 1>>}")}


def run(ctx):
    ctx.rule = ("Floating clause: for 10 rep pairs with a floating common rep x the same unit pairs, the six comparisons, + and - on grids of exactly "
                "representable operands, near-equal operands and random values are judged by TLC (QuantityF.tla, exact dyadic arithmetic): exact "
                "order when separated by more than 2^(3-p) relative or when both scaled operands are exact, sum/difference within 2^(3-p) of the "
                "larger operand, exact when representable, result rep = usual arithmetic conversions.  Layer A: every value pair of every equal-signedness pair of scaled reps x every pair of unit ratios through the modelled "
                "CastToCommon / Apply pipeline: comparisons = exact rational order, + - % exact, <=> agrees, mutual consistency, whenever "
                "neither scaling overflows.  Layer B/C: TLC emits per (rep pair, unit pair) the cofactors and common-rep range (BigInt); a "
                "comparator sweeps all 8-bit-valued operand pairs (and boundary/random wider values) through the real operators and every "
                "disagreement, boundary pair and sampled agreement is re-derived by TLC from the raw inputs.  Non-trivial = operand pairs that "
                "are equal or adjacent in the common unit, or on a scaling-overflow boundary.")
    ctx.assumptions += ["LP64", "instances that the conversion policy rejects do not compile and are outside the domain (predicted by the C06 predicate, confirmed by compiling)",
                        "sum/difference exactness additionally assumes the raw + / - on the scaled values does not overflow the result rep"]
    reps, ratios = LAYER_A[ctx.tier]
    mc = ctx.write("MC_Quantity_run.tla", "---- MODULE MC_Quantity_run ----\nEXTENDS Quantity\nMCReps == %s\nMCRatios == %s\n====\n" % (reps, ratios))
    mcfg = ctx.write("MC_Quantity_run.cfg", "CONSTANTS IntBits = 6 Thresh = 2 RepsA <- MCReps Ratios <- MCRatios\nSPECIFICATION Spec\nINVARIANTS ComparisonsExact ComparisonsConsistent SumExact DifExact RemExact SpaceshipAgrees NoUBWhenReady\n")
    a = ctx.tlc(mc, cfg=mcfg, timeout=3000, name="layerA mixed ops", allow_violation=True, xmx="12g")
    if a.violated:
        raise core.ToolError("Layer A: invariant %s of Quantity.tla fails\n%s" % (a.violated, "\n".join(a.out.splitlines()[-30:])))
    ctx.layers["A"] = {"module": "Quantity.tla", "distinct": a.distinct, "exhaustive": True}
    g = ctx.tlc("Gen_Mixed.tla", env={"TIER": ctx.tier}, timeout=900, name="gen mixed instances")
    if not g.ok or len(g.cases) != g.distinct or not g.cases:
        raise core.ToolError("Gen_Mixed failed\n" + g.out[-1500:])
    fcases = [c for c in g.cases if c["k"] == "mixedf"]
    cases = [c for c in g.cases if c["enabled"] and c["k"] == "mixed"]
    disabled = [c for c in g.cases if not c["enabled"]]

    def make_src(b):
        L = ['#include "mixedf_sweep.hh"', "int main(int argc, char **argv) {", "  auv::MOpts o = auv::parse_mopts(argc, argv);"]
        for c in b:
            if c["k"] == "mixedf":
                L.append('  auv::mixedf<%s, %sULL, %sULL, %s, %sULL, %sULL>("%s", "%s", o);' % (CXX_T[c["R1"]], c["N1"], c["D1"], CXX_T[c["R2"]], c["N2"], c["D2"], c["K1"], c["K2"]))
                continue
            L.append('  auv::mixed<%s, %sULL, %sULL, %s, %sULL, %sULL, %s>("%s", "%s", "%s", "%s", "%s", "%s", o);' % (
                CXX_T[c["R1"]], c["N1"], c["D1"], CXX_T[c["R2"]], c["N2"], c["D2"], "true" if c["own"] else "false",
                c["K1"], c["K2"], c["lo"], c["hi"], c["plo"], c["phi"]))
        return "\n".join(L + ["  return 0;", "}"]) + "\n"
    groups = {}
    for c in cases + fcases:
        groups.setdefault((c["R1"], c["R2"]), []).append(c)
    if ctx.tier == "quick":
        cfgs, args = ["c20", "g14"], ["--seed", str(ctx.seed), "--nrandom", "2000", "--sample-shift", "11"]
    else:
        cfgs, args = ["c20", "g14", "c14", "g20", "c17", "g17"], ["--seed", str(ctx.seed), "--nrandom", "200000", "--sample-shift", "13"]
    recs, dropped, nprog = core.harness_farm(ctx, groups, make_src, cfgs, args, batch=4, tag="mixed")
    if dropped:
        real = [d for d in dropped if "Dangerous conversion" not in d[2] and "constexpr" not in d[2]]
        ctx.model_drift("%d instances predicted enabled do not compile: %s" % (len(dropped), [(d[0]["R1"], d[0]["R2"], d[0]["N1"], d[0]["D1"], d[0]["N2"], d[0]["D2"]) for d in dropped][:3]))
        for d in real:
            if core.first_error_in_au(d[2]):
                ctx.violation({"R1": d[0]["R1"], "R2": d[0]["R2"], "u1": d[0]["N1"] + "/" + d[0]["D1"], "u2": d[0]["N2"] + "/" + d[0]["D2"], "kind": "rejected"},
                              "mixed-unit operators do not compile although both conversions are permitted [%s]: %s" % (d[1], d[2][:300]), detail=d[0])
    obs = [r for r in recs if r["k"] == "mixed"]
    sums = [r for r in recs if r["k"] == "msum"]
    swept = sum(s["swept"] for s in sums)
    ctx.evaluations += swept
    ctx.nontrivial += sum(s["nontrivial"] for s in sums if s["cfg"] == cfgs[0])
    ctx.log("swept %d operand pairs x 10 operators in %d programs; %d records to TLC; %d instances disabled by policy" % (swept, nprog, len(obs), len(disabled)))
    nval, bad = ctx.tlc_batch_validate("Trace_Mixed.tla", obs, name="mixed", shards=core.NCPU)
    badk = set()
    for b in bad:
        r, v = b["rec"], b["v"]
        key = {"R1": r["R1"], "R2": r["R2"], "u1": "%d/%d" % (wire_to_int(r["N1"]), wire_to_int(r["D1"])), "u2": "%d/%d" % (wire_to_int(r["N2"]), wire_to_int(r["D2"])),
               "x": str(wire_to_int(r["x"])), "y": str(wire_to_int(r["y"]))}
        badk.add(json.dumps(key, sort_keys=True) + r["cfg"])
        if v["ok"] and not v["cmp"]:
            raise core.ToolError("comparator/contract disagrees with the specification: %s" % json.dumps(b))
        ctx.violation(key, "mixed-unit operators on %s(%s) [unit %s] vs %s(%s) [unit %s]: lt=%d le=%d gt=%d ge=%d eq=%d ne=%d sum=%d dif=%d mod=%s <=>=%s ub=%d; exact order %s" % (
            r["R1"], key["x"], key["u1"], r["R2"], key["y"], key["u2"], r["lt"], r["le"], r["gt"], r["ge"], r["eq"], r["ne"], wire_to_int(r["sum"]), wire_to_int(r["dif"]),
            wire_to_int(r["mod"]) if r["hasmod"] else "-", r["ss"] if r["hasss"] else "-", r["ub"], v["ord"]), detail=b)
    for r in obs:
        if r["why"] == "mismatch":
            key = {"R1": r["R1"], "R2": r["R2"], "u1": "%d/%d" % (wire_to_int(r["N1"]), wire_to_int(r["D1"])), "u2": "%d/%d" % (wire_to_int(r["N2"]), wire_to_int(r["D2"])),
                   "x": str(wire_to_int(r["x"])), "y": str(wire_to_int(r["y"]))}
            if json.dumps(key, sort_keys=True) + r["cfg"] not in badk:
                raise core.ToolError("comparator mismatch not confirmed by TLC: %s" % json.dumps(r))
    # floating clause
    fobs = [r for r in recs if r["k"] == "mixedf"]
    nvf, badf = ctx.tlc_batch_validate("Trace_MixedF.tla", fobs, name="mixedf", shards=core.NCPU, timeout=3000)
    for b in badf:
        r, v = b["rec"], b["v"]
        fx = lambda rep, w: core.fval(w) if rep.startswith("f") else wire_to_int(w)
        key = {"R1": r["R1"], "R2": r["R2"], "u1": "%d/%d" % (wire_to_int(r["N1"]), wire_to_int(r["D1"])), "u2": "%d/%d" % (wire_to_int(r["N2"]), wire_to_int(r["D2"])),
               "x": str(fx(r["R1"], r["x"])), "y": str(fx(r["R2"], r["y"]))}
        ctx.violation(key, "mixed-unit operators on %s(%s) [unit %s] vs %s(%s) [unit %s], result rep %s: lt=%d le=%d gt=%d ge=%d eq=%d ne=%d sum=%s dif=%s; exact order %s (products exact: %s, separated: %s)" % (
            r["R1"], key["x"], key["u1"], r["R2"], key["y"], key["u2"], r["RC"], r["lt"], r["le"], r["gt"], r["ge"], r["eq"], r["ne"], core.fval(r["sum"]), core.fval(r["dif"]),
            v["ord"], v["exact"], v["decided"]), detail=b)
    ctx.layers["F"] = {"float_instances": len(fcases), "records_validated_by_TLC": nvf}
    for r in obs[:3]:
        ctx.sample({k: (wire_to_int(v) if isinstance(v, dict) else v) for k, v in r.items()})
    ctx.layers["BC"] = {"instances": len(cases), "disabled_by_policy": len(disabled), "operand_pairs_swept": swept, "records_validated_by_TLC": nval, "configs": cfgs}
    from .. import walks
    walks.run(ctx, {"AddLit", "SubLit", "CmpLit", "ModLit", "Make"}, "mixed-unit + and - inside chains of operations", seed_offset=8)
