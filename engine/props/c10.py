"""C10: the common point unit keeps every input integral and non-negative."""
import itertools
import math
import random

from .. import core, unitcat

HDRS = '#include "au/units/kelvins.hh"\n#include "au/units/celsius.hh"\n#include "au/units/fahrenheit.hh"\n#include "au/prefix.hh"\n'


def run(ctx):
    ctx.rule = ("Layer A: all pairs and triples (every permutation, one repetition) over 8 model point units with rational scales and "
                "rational origins (positive, zero, negative, written in different units) through the modelled CommonOrigin fold / "
                "displacement-magnitude gcd / FirstMatchingUnit: a in N+, b in N, origin is the minimum, symmetric, an input when possible.  "
                "Layer B/C: pairs and triples drawn from Kelvins/Celsius/Fahrenheit, prefixed forms and seeded generated units (scale "
                "num,den <= 1000, rational origin) are compiled; scale and origin of every input and of CommonPointUnitT are read out, all "
                "permutations and a repetition are compared with std::is_same, and TLC judges a in N+, b in N with exact BigInt rationals.  "
                "Non-trivial = lists with at least two distinct units.")
    ctx.assumptions += ["generated units use small origins so that the library's own compile-time arithmetic (long long) cannot overflow",
                        "two distinct units with identical scale and origin in one list are excluded (documented limitation)"]
    a = ctx.tlc("MC_CommonPoint.tla", timeout=1200, name="layerA common point unit", allow_violation=True)
    if a.violated:
        raise core.ToolError("Layer A: invariant %s of MC_CommonPoint fails\n%s" % (a.violated, "\n".join(a.out.splitlines()[-30:])))
    ctx.layers["A"] = {"module": "MC_CommonPoint.tla (CommonPointUnit.tla)", "distinct": a.distinct, "exhaustive": True}
    rnd = random.Random(ctx.seed)
    ngen = 8 if ctx.tier == "quick" else 24
    pool = [("Kelvins", "Kelvins"), ("Celsius", "Celsius"), ("Fahrenheit", "Fahrenheit"), ("mK", "Milli<Kelvins>"), ("cC", "Centi<Celsius>"),
            ("kK", "Kilo<Kelvins>"), ("mF", "Milli<Fahrenheit>"), ("dC", "Deci<Celsius>")]
    decls = ["struct A5 : decltype(Kelvins{} * mag<1>()) { static constexpr auto origin() { return kelvins(5); } };",
             "struct B7 : decltype(Kelvins{} * mag<1>()) { static constexpr auto origin() { return kelvins(7); } };",
             "struct H3 : decltype(Kelvins{} / mag<2>()) { static constexpr auto origin() { return (kelvins / mag<2>())(3); } };",
             "struct Rk : decltype(Kelvins{} * mag<5>() / mag<9>()) {};"]
    # same size, origins of the same type but different values; an anonymous scaled unit of a named unit's size with another origin; Rankines
    pool += [("A5", "A5"), ("B7", "B7"), ("H3", "H3"), ("kC/1000", "decltype(Kilo<Celsius>{} / mag<1000>())"), ("Rankines", "Rk")]
    fixed_names = ("Kelvins", "Celsius", "Fahrenheit", "kK", "A5", "B7", "H3", "kC/1000", "Rankines")
    seen = set()
    for g in range(ngen):
        while True:
            n, d = rnd.randint(1, 1000), rnd.randint(1, 1000)
            k = math.gcd(n, d)
            n, d = n // k, d // k
            od = rnd.choice([1, 2, 3, 4, 5, 9, 10, 20, 100, 180])
            on = rnd.choice([0, 0, rnd.randint(-1000, 1000), rnd.randint(1, 30000), -rnd.randint(1, 500)])
            if (n, d, on, od) not in seen:
                seen.add((n, d, on, od))
                break
        name = "G%d" % g
        org = "" if on == 0 else " static constexpr auto origin() { return (kelvins / mag<%d>())(%dLL); }" % (od, on)
        decls.append("struct %s : decltype(Kelvins{} * mag<%d>() / mag<%d>()) {%s };" % (name, n, d, org))
        pool.append((name, name))
    pairs = list(itertools.combinations(range(len(pool)), 2))
    triples = list(itertools.combinations(range(len(pool)), 3))
    rnd.shuffle(triples)
    fixed_idx = [k for k, (nm, _t) in enumerate(pool) if nm in fixed_names]
    fixed_triples = [list(t) for t in itertools.combinations(fixed_idx, 3)]
    lists = [list(p) for p in pairs] + fixed_triples + [list(t) for t in triples[: (60 if ctx.tier == "quick" else 1200)] if list(t) not in fixed_triples]
    if ctx.tier == "thorough":
        quads = list(itertools.combinations(range(len(pool)), 4))
        rnd.shuffle(quads)
        lists += [list(q) for q in quads[:300]]
    cases = [{"i": i, "idx": l} for i, l in enumerate(lists)]

    def make_src(b):
        L = ['#include "unit_readout.hh"', HDRS, "using namespace au;", "\n".join(decls),
             'template <typename U> std::string pu() { return std::string("{\\"mag\\":") + auv::unit_mag_json<U>() + ",\\"origin\\":" + auv::unit_origin_json0<U>() + "}"; }',
             "int main() {"]
        for c in b:
            ts = [pool[j][1] for j in c["idx"]]
            cu = "CommonPointUnitT<%s>" % ", ".join(ts)
            perms = [p for p in itertools.permutations(range(len(ts)))][1:]
            perm_same = " && ".join("std::is_same<CommonPointUnitT<%s>, %s>::value" % (", ".join(ts[x] for x in p), cu) for p in perms)
            rep_same = "std::is_same<CommonPointUnitT<%s>, %s>::value" % (", ".join([ts[-1]] + ts + [ts[0]]), cu)
            is_in = " || ".join("std::is_same<%s, %s>::value" % (cu, t) for t in ts)
            units = ' + "," + '.join("pu<%s>()" % t for t in ts)
            L.append('  { constexpr bool ps = %s; constexpr bool rs = %s; constexpr bool ii = %s;' % (perm_same, rep_same, is_in))
            L.append('    std::printf("{\\"k\\":\\"cp\\",\\"i\\":%d,\\"units\\":[%%s],\\"common\\":%%s,\\"perm_same\\":%%d,\\"repeat_same\\":%%d,\\"is_input\\":%%d}\\n", (%s).c_str(), pu<%s>().c_str(), (int)ps, (int)rs, (int)ii); }' % (c["i"], units, cu))
        return "\n".join(L + ["  return 0;", "}"]) + "\n"
    cfgs = ["g14", "c20"] if ctx.tier == "quick" else ["g14", "c20", "g20", "c14"]
    recs, dropped, nprog = core.harness_farm(ctx, {"cp": cases}, make_src, cfgs, [], batch=12, tag="cpu", opt="-O0")
    name_of = lambda c: ", ".join(pool[j][0] for j in c["idx"])
    for d in dropped:
        if not core.first_error_in_au(d[2]):
            raise core.ToolError("generated common-point program does not compile (generator bug?): %s" % d[2][:800])
        if "Broken strict total ordering" in d[2]:
            ctx.notes.append("list %s hits the documented ordering limitation [%s]" % (name_of(d[0]), d[1]))
            continue
        ctx.violation({"list": name_of(d[0]), "kind": "rejected"}, "CommonPointUnitT<%s> does not compile [%s]: %s" % (name_of(d[0]), d[1], d[2][:300]), detail=decls)
    obs = [r for r in recs if r.get("k") == "cp"]
    nval, bad = ctx.tlc_batch_validate("Trace_CommonPoint.tla", obs, name="cpoint", shards=8)
    for b in bad:
        r = b["rec"]
        c = cases[r["i"]]
        ctx.violation({"list": name_of(c), "kind": "affine" if not all(b["coef"]) else ("symmetry" if not (r["perm_same"] and r["repeat_same"]) else "is-input")},
                      "CommonPointUnitT<%s>: coefficients integral/non-negative per input = %s, permutation-invariant=%d, repetition-invariant=%d, is-input=%d [%s]; units: %s" % (
                          name_of(c), b["coef"], r["perm_same"], r["repeat_same"], r["is_input"], r["cfg"], [x for x in decls if any(pool[j][0] in x for j in c["idx"])]), detail=b)
    ctx.evaluations += len(obs)
    ctx.nontrivial = len(cases)
    for r in obs[:2]:
        ctx.sample({"list": name_of(cases[r["i"]]), "units": r["units"], "common": r["common"], "is_input": r["is_input"]})
    ctx.layers["BC"] = {"lists": len(cases), "generated_units": decls[:4] + ["..."], "records_validated_by_TLC": nval, "configs": cfgs, "programs": nprog}
