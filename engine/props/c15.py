import re
"""C15: unit-aware math functions return the mathematically required value and unit."""
from .. import core
from ..convcheck import CXX_T
from ..core import wire_to_int, fval
from .c11 import mag_str

HDR = ('#include "math_sweep.hh"\n#include "au/units/meters.hh"\n#include "au/units/feet.hh"\n#include "au/units/inches.hh"\n#include "au/units/seconds.hh"\n'
       '#include "au/units/minutes.hh"\n#include "au/units/hertz.hh"\n#include "au/units/radians.hh"\n#include "au/units/degrees.hh"\n#include "au/units/revolutions.hh"\n'
       '#include "au/units/miles.hh"\n#include "au/units/yards.hh"\n#include "au/prefix.hh"\nusing namespace au;\n')
ROUND = [("Inches", "Feet"), ("Feet", "Inches"), ("Meters", "Feet"), ("Feet", "Meters"), ("Yards", "Meters"), ("Meters", "Milli<Meters>"), ("Milli<Meters>", "Meters"),
         ("Seconds", "Minutes"), ("Degrees", "Radians"), ("Radians", "Degrees"), ("Revolutions", "Degrees"), ("Meters", "Meters"), ("Miles", "Kilo<Meters>")]
INV = [("Micro<Seconds>", "Hertz"), ("Nano<Seconds>", "Kilo<Hertz>"), ("Milli<Seconds>", "Milli<Hertz>"), ("Nano<Seconds>", "Hertz"), ("Pico<Seconds>", "Mega<Hertz>"),
       ("Hertz", "Micro<Seconds>"), ("decltype(Micro<Seconds>{} / mag<7>())", "Hertz"),
       # conversion constants beyond 2^53: the quotient must be the integer one (K = 10^12, 10^15, 10^18, 7 * 10^18, 3 * 10^18)
       ("Pico<Seconds>", "Hertz"), ("Femto<Seconds>", "Hertz"), ("Atto<Seconds>", "Hertz"), ("Pico<Seconds>", "Micro<Hertz>"), ("Micro<Hertz>", "Pico<Seconds>"),
       ("decltype(Atto<Seconds>{} / mag<7>())", "Hertz"), ("decltype(Atto<Seconds>{} / mag<3>())", "Hertz")]
WIDE_ONLY = ("Pico", "Femto", "Atto")


def run(ctx):
    ctx.rule = ("Layer A: the inversion lemma trunc(K / trunc(K / n)) = n for all K in [10^6, 10^6 + 1500] and 2000 multiples of 10^6, all n in 1..1000.  "
                "Layer C: floor_/ceil_/round_{in,as} on 13 unit pairs (integer, reciprocal, rational and pi ratios) x {i32, i64, f32, f64} over integers in "
                "+-2^16 and boundary/random doubles -- every result is judged by TLC against the exact value x ratio (ratio read out as a prime-power "
                "pack; BigInt rationals, pi enclosure) with tolerance 2^(5-p) of the floating type the std function works in; inversions over 14 "
                "time/frequency pairs x {i32, i64, u32, u64}: trunc(K/x) judged by TLC, round trip 1..1000 exhaustively; compile-time refusal of "
                "integral inversions with K < 10^6 for every integral rep (probes with accepted twins); sin/cos/tan equal std on the value in "
                "radians whose conversion TLC checks; hypot, fmod, remainder, abs, copysign, min, max, clamp, isnan, arc* equal the std function "
                "on the operands in the common unit with the right result unit.  Non-trivial = inputs whose exact image is within 2^-20 of an "
                "integer or half-integer, inversion arguments 1..1000, refusal probes.")
    ctx.assumptions += ["tolerance 2^(5-p) + 2^-40 for 'up to the rounding error of the floating type the std function works in'"]
    a = ctx.tlc("MC_Inverse.tla", timeout=900, name="layerA inversion lemma", allow_violation=True)
    if a.violated:
        raise core.ToolError("Layer A: the inversion lemma fails\n" + "\n".join(a.out.splitlines()[-20:]))
    ctx.layers["A"] = {"module": "MC_Inverse.tla", "distinct": a.distinct, "exhaustive": True}
    reps = ["i32", "i64", "f32", "f64"]
    items = [("round", u1, r, u2) for (u1, u2) in ROUND for r in reps]
    items += [("inv", r, ut, uq) for (ut, uq) in INV for r in ["i32", "i64", "u32", "u64"]
              if not (r in ("i32", "u32") and (any(w in ut + uq for w in WIDE_ONLY) or (ut == "Nano<Seconds>" and uq == "Hertz")))]
    items += [("trig", u, r) for u in ("Degrees", "Radians", "Revolutions", "Milli<Radians>") for r in reps]
    items += [("wrap", "Meters", "Feet", "f64"), ("wrap", "Inches", "Feet", "f32"), ("wrap", "Meters", "Meters", "f64"), ("wrap", "Milli<Meters>", "Yards", "f64")]

    items += [("intwrap", r) for r in ("i8", "i16", "i32", "i64", "u8", "u16", "u32", "u64")]

    def make_src(b):
        L = [HDR, "int main(int argc, char **argv) {", "  uint64_t seed = argc > 1 ? (uint64_t)std::atoll(argv[1]) : 1;"]
        for it in b:
            if it[0] == "intwrap":
                L.append("  auv::int_wrappers<%s>();" % CXX_T[it[1]])
            elif it[0] == "round":
                L.append("  auv::rounding<%s, %s, %s>(seed);" % (it[1], CXX_T[it[2]], it[3]))
            elif it[0] == "inv":
                L.append("  auv::inversion<%s, %s, %s>(seed);" % (CXX_T[it[1]], it[2], it[3]))
            elif it[0] == "trig":
                L.append("  auv::trig<%s, %s>(seed);" % (it[1], CXX_T[it[2]]))
            else:
                L.append("  auv::wrappers<%s, %s, %s>(seed);" % (it[1], it[2], CXX_T[it[3]]))
        return "\n".join(L + ["  return 0;", "}"]) + "\n"
    cfgs = ["g14", "c20"] if ctx.tier == "quick" else core.ALL_CONFIGS
    recs, dropped, nprog = core.harness_farm(ctx, {"m": items}, make_src, cfgs, [str(ctx.seed)], batch=5, tag="math")
    for d in dropped:
        if not core.first_error_in_au(d[2]):
            raise core.ToolError("math harness does not compile (generator bug?): %s" % d[2][:800])
        ctx.violation({"item": str(d[0]), "kind": "rejected"}, "math function use %s does not compile [%s]: %s" % (d[0], d[1], d[2][:300]), detail=d[2])
    obs = [r for r in recs if r["k"] in ("round", "inverse", "angle")]
    for r in recs:
        if r["k"] == "mathsum" and r["bad"]:
            ctx.violation({"kind": r["what"], "cfg": r["cfg"]}, "%d of %d %s checks disagree with the std function / between forms [%s]" % (r["bad"], r["n"], r["what"], r["cfg"]), detail=r)
        if r["k"] == "mathmis":
            ctx.violation({"kind": r["what"], "R": r["R"], "x": str(r.get("n", "")) or fval(r["x"])}, "%s: %s [%s]" % (r["what"], {k: v for k, v in r.items() if k not in ("k", "cfg")}, r["cfg"]), detail=r)
    nval, bad = ctx.tlc_batch_validate("Trace_Math.tla", obs, name="math", shards=core.NCPU, timeout=1500)
    for b in bad:
        r = b["rec"]
        x = fval(r["x"]) if isinstance(r["x"], dict) and "cls" in r["x"] else str(wire_to_int(r["x"]))
        res = fval(r["res"]) if "res" in r and "cls" in r["res"] else (str(wire_to_int(r["res"])) if "res" in r else fval(r["y"]))
        ctx.violation({"kind": r["k"], "fn": r.get("fn", r["k"]), "S": r.get("S", r.get("R")), "x": x, "ratio": mag_str(r["mag"])},
                      "%s(%s x=%s, ratio %s) = %s is not the mathematically required value [%s]" % (r.get("fn", r["k"]), r.get("S", r.get("R")), x, mag_str(r["mag"]), res, r["cfg"]), detail=b)
    # result units of min / max / clamp when the operands have different units (quantities: common unit; points: common point unit of ALL operands)
    import itertools
    L = ['#include "au/au.hh"', '#include "au/math.hh"', '#include "au/units/meters.hh"', '#include "au/units/inches.hh"', '#include "au/units/celsius.hh"', '#include "au/units/kelvins.hh"',
         '#include "au/units/fahrenheit.hh"', "#include <cstdio>", "#include <cmath>", "using namespace au;",
         "template <class A, class B, class C> using ClampU = typename decltype(clamp(std::declval<A>(), std::declval<B>(), std::declval<C>()))::Unit;",
         "template <class A, class B> using MinU = typename decltype(min(std::declval<A>(), std::declval<B>()))::Unit;",
         "template <class A, class B> using MaxU = typename decltype(max(std::declval<A>(), std::declval<B>()))::Unit;"]
    qsets = [("Meters", "Milli<Meters>", "Inches"), ("Centi<Meters>", "Meters", "Kilo<Meters>")]
    psets = [("Celsius", "Kelvins", "Fahrenheit"), ("Meters", "Milli<Meters>", "Centi<Meters>"), ("Milli<Kelvins>", "Celsius", "Kelvins")]
    k = 0
    for kind, sets, wrap, cu in (("quantity", qsets, "Quantity<%s, double>", "CommonUnitT"), ("point", psets, "QuantityPoint<%s, double>", "CommonPointUnitT")):
        for us in sets:
            for p in itertools.permutations(us):
                a, b, c = (wrap % u for u in p)
                L.append('static_assert(std::is_same<ClampU<%s, %s, %s>, %s<%s, %s, %s>>::value, "mm%d clamp %s %s");' % (a, b, c, cu, p[0], p[1], p[2], k, kind, "/".join(p)))
                L.append('static_assert(std::is_same<MinU<%s, %s>, %s<%s, %s>>::value && std::is_same<MaxU<%s, %s>, %s<%s, %s>>::value, "mm%d minmax %s %s");' % (a, b, cu, p[0], p[1], a, b, cu, p[0], p[1], k, kind, "/".join(p[:2])))
                k += 1
    L += ["int main() {", "  int bad = 0;",
          "  bad += std::fabs(clamp(celsius_pt(50.0), kelvins_pt(300.0), fahrenheit_pt(100.0)).in(kelvins_pt) - (100.0 + 459.67) * 5.0 / 9.0) > 1e-9;",
          "  bad += std::fabs(clamp(celsius_pt(5.0), kelvins_pt(300.0), fahrenheit_pt(100.0)).in(kelvins_pt) - 300.0) > 1e-9;",
          "  bad += std::fabs(clamp(meters_pt(2.0), meters_pt(1.0), milli(meters_pt)(1500.0)).in(milli(meters_pt)) - 1500.0) > 1e-9;",
          "  bad += std::fabs(min(celsius_pt(20.0), fahrenheit_pt(70.0)).in(kelvins_pt) - 293.15) > 1e-9;",
          "  bad += std::fabs(max(inches(30.0), milli(meters)(700.0)).in(milli(meters)) - 762.0) > 1e-9;",
          '  std::printf("%d\\n", bad);', "  return 0;", "}"]
    srcm = ctx.write("minmaxclamp.cc", "\n".join(L) + "\n")
    for cfg in cfgs[:2]:
        exe = ctx.path("minmaxclamp_" + cfg)
        rc, o = ctx.cxx(srcm, exe, cfg=cfg, opt="-O0", flags=(["-ferror-limit=0"] if cfg.startswith("c") else ["-fmax-errors=0"]))
        ctx.programs += 1
        if rc != 0:
            hits = sorted(set(re.findall(r'mm\d+ (clamp|minmax) (quantity|point) ([\w<>/]+)', o)))
            errs = [l for l in o.splitlines() if "error" in l]
            if hits:
                for fn, kind, us in hits[:12]:
                    ctx.violation({"kind": "result unit", "fn": fn, "operands": kind, "units": us}, "%s on %ss in %s: the result unit is not the common %sunit of the operands [%s]" % (
                        fn, kind, us, "point " if kind == "point" else "", cfg), detail=None)
            elif core.first_error_in_au(errs):
                ctx.violation({"kind": "min/max/clamp rejected"}, "min/max/clamp on operands of different units do not compile [%s]: %s" % (cfg, "\n".join(errs[:3])[:400]), detail=errs[:6])
            else:
                raise core.ToolError("min/max/clamp TU does not compile: " + "\n".join(errs[:5]))
        else:
            nb = int(ctx.run_bin(exe).strip() or "0")
            if nb:
                ctx.violation({"kind": "min/max/clamp value", "cfg": cfg}, "%d of 5 min/max/clamp values on operands of different units are wrong [%s]" % (nb, cfg), detail=None)
    # compile-time refusal of integral inversions with K < 10^6
    pre = HDR.replace('#include "math_sweep.hh"\n', '#include "au/au.hh"\n#include "au/math.hh"\n')
    pch = {cfg: ctx.pch(cfg, "c15", pre) for cfg in cfgs[:2]}
    probes = []
    for r in ("int8_t", "uint8_t", "int16_t", "uint16_t", "int32_t", "uint32_t", "int64_t", "uint64_t"):
        probes.append(("K=20000 %s" % r, "auto r = inverse_in(micro(seconds), (hertz * mag<50>())(%s{3}));" % r, False))
        probes.append(("K=1000 %s" % r, "auto r = inverse_as(milli(seconds), hertz(%s{3}));" % r, False))
        probes.append(("K=100 %s" % r, "auto r = inverse_in(centi(seconds), hertz(%s{3}));" % r, False))
        probes.append(("K=999999 %s" % r, "auto r = inverse_in(micro(seconds) * mag<1000000>() / mag<999999>(), hertz(%s{3}));" % r, False))
        if "8" not in r and "16" not in r:
            probes.append(("K=10^6 %s" % r, "auto r = inverse_in(micro(seconds), hertz(%s{3}));" % r, True))
            probes.append(("K=10^9 %s" % r, "auto r = inverse_as(nano(seconds), hertz(%s{3}));" % r, True))
        if "8" not in r:
            probes.append(("explicit-rep K=1000 %s" % r, "auto r = inverse_in<%s>(milli(seconds), hertz(%s{3}));" % (r, r), True))
        probes.append(("explicit-rep K=100 %s" % r, "auto r = inverse_in<%s>(centi(seconds), hertz(%s{3}));" % (r, r), True))
    probes.append(("float K=1", "auto r = inverse_in(seconds, hertz(3.0));", True))

    def probe(p):
        name, stmt, expect = p
        out = []
        for cfg in cfgs[:2]:
            s = ctx.write("invp_%s_%d.cc" % (cfg, abs(hash(stmt)) % 10**9), "void f() { %s }\nint main() {}\n" % stmt)
            rc, o = ctx.cxx(s, cfg=cfg, syntax_only=True, opt="-O0", flags=pch[cfg])
            out.append((cfg, rc == 0, [l for l in o.splitlines() if "error" in l][:2]))
        return p, out
    nrej = 0
    for (name, stmt, expect), outs in ctx.pmap(probe, probes):
        for cfg, ok, diag in outs:
            nrej += 0 if expect else 1
            if ok != expect:
                ctx.violation({"probe": name, "kind": "accepted" if ok else "rejected"}, "integral inversion '%s' (%s) compiles=%s but must %s [%s] %s" % (stmt, name, ok, "compile" if expect else "be refused", cfg, " | ".join(diag)[:300]), detail=stmt)
    ctx.programs += 2 * len(probes)
    ctx.evaluations += len(obs) + sum(r["n"] for r in recs if r["k"] == "mathsum")
    ctx.nontrivial = len([o for o in obs if o["cfg"] == cfgs[0]])
    for o in obs[:1] + [x for x in obs if x["k"] == "inverse"][:1] + [x for x in obs if x["k"] == "angle"][:1]:
        ctx.sample({k: (v if not isinstance(v, dict) else (fval(v) if "cls" in v else wire_to_int(v))) for k, v in o.items() if k != "mag"} | {"ratio": mag_str(o["mag"])})
    ctx.layers["C"] = {"rounding_instances": len(ROUND) * len(reps), "inversion_instances": len([i for i in items if i[0] == "inv"]), "records_validated_by_TLC": nval,
                       "refusal_probes": len(probes), "expected_refusals": nrej, "configs": cfgs}
