"""C01: dimension mismatches are rejected at compile time (and traits answer 'no' without a hard error)."""
import json
import random
import re

from .. import core, unitcat
from ..unitexpr import Speller, expr_str
from .c02 import prep_specs

PRELUDE = '''#include "au/au.hh"
%s
#include <type_traits>
using namespace au;
template <class...> using auv_void_t = void;
template <class A, class B, class = void> struct auv_has_common : std::false_type {};
template <class A, class B> struct auv_has_common<A, B, auv_void_t<std::common_type_t<A, B>>> : std::true_type {};
'''

# statement forms; a: Quantity<U1,R>, b: Quantity<U2,R>, pa/pb: QuantityPoint, u1 = U1{}
Q_FORMS = [
    ("add", "auto r = a + b; (void)r;"), ("sub", "auto r = a - b; (void)r;"),
    ("eq", "bool r = (a == b); (void)r;"), ("ne", "bool r = (a != b); (void)r;"), ("lt", "bool r = (a < b); (void)r;"),
    ("le", "bool r = (a <= b); (void)r;"), ("gt", "bool r = (a > b); (void)r;"), ("ge", "bool r = (a >= b); (void)r;"),
    ("pluseq", "a += b;"), ("minuseq", "a -= b;"),
    ("implicit", "A r = b; (void)r;"), ("explicit", "A r{b}; (void)r;"), ("assign", "a = b;"),
    ("as", "auto r = b.as(u1); (void)r;"), ("in", "auto r = b.in(u1); (void)r;"),
    ("coerce_as", "auto r = b.coerce_as(u1); (void)r;"), ("coerce_in", "auto r = b.coerce_in(u1); (void)r;"),
    ("as_rep", "auto r = b.template as<float>(u1); (void)r;"), ("coerce_in_rep", "auto r = b.template coerce_in<int>(u1); (void)r;"),
    ("min", "auto r = min(a, b); (void)r;"), ("max", "auto r = max(a, b); (void)r;"), ("clamp", "auto r = clamp(a, b, b); (void)r;"),
    ("clamp_v", "auto r = clamp(b, a, a); (void)r;"),
    ("hypot", "auto r = hypot(a, b); (void)r;"), ("fmod", "auto r = fmod(a, b); (void)r;"), ("remainder", "auto r = remainder(a, b); (void)r;"),
    ("arctan2", "auto r = arctan2(a, b); (void)r;"),
    ("round_as", "auto r = round_as(u1, b); (void)r;"), ("round_in", "auto r = round_in(u1, b); (void)r;"),
    ("floor_as", "auto r = floor_as(u1, b); (void)r;"), ("floor_in", "auto r = floor_in(u1, b); (void)r;"),
    ("ceil_as", "auto r = ceil_as(u1, b); (void)r;"), ("ceil_in", "auto r = ceil_in(u1, b); (void)r;"),
    ("round_as_rep", "auto r = round_as<int>(u1, b); (void)r;"),
    ("common_type", "std::common_type_t<A, B> r{}; (void)r;"),
    ("will_overflow", "bool r = will_conversion_overflow(b, u1); (void)r;"), ("is_lossy", "bool r = is_conversion_lossy(b, u1); (void)r;"),
    ("data_in", "auto &r = b.data_in(u1); (void)r;"), ("data_in_const", "const B cb = b; const auto &r = cb.data_in(u1); (void)r;"),
]
# forms that additionally need identical units (twins: same unit only)
SAME_UNIT_ONLY = ("mod", "data_in", "data_in_const", "pt_data_in")
# a unit quotient of two different base dimensions against a dimensionless unit: two base dimensions that were merged would make it compile
MERGE_FORMS = ("add", "eq", "implicit", "as", "common_type", "lt")
Q_FORMS_20 = [("spaceship", "auto r = (a <=> b); (void)r;")]
Q_FORMS_INT = [("mod", "auto r = ai % bi; (void)r;")]
P_FORMS = [
    ("pt_sub", "auto r = pa - pb; (void)r;"), ("pt_eq", "bool r = (pa == pb); (void)r;"), ("pt_ne", "bool r = (pa != pb); (void)r;"),
    ("pt_lt", "bool r = (pa < pb); (void)r;"), ("pt_ge", "bool r = (pa >= pb); (void)r;"),
    ("pt_implicit", "PA r = pb; (void)r;"), ("pt_assign", "pa = pb;"),
    ("pt_as", "auto r = pb.as(u1); (void)r;"), ("pt_in", "auto r = pb.in(u1); (void)r;"),
    ("pt_coerce_as", "auto r = pb.coerce_as(u1); (void)r;"), ("pt_coerce_in", "auto r = pb.coerce_in(u1); (void)r;"),
    ("pt_as_rep", "auto r = pb.template as<float>(u1); (void)r;"),
    ("pt_plus_q", "auto r = pa + b; (void)r;"), ("pt_q_plus", "auto r = b + pa; (void)r;"), ("pt_minus_q", "auto r = pa - b; (void)r;"),
    ("pt_pluseq", "pa += b;"), ("pt_minuseq", "pa -= b;"),
    ("pt_min", "auto r = min(pa, pb); (void)r;"), ("pt_max", "auto r = max(pa, pb); (void)r;"), ("pt_clamp", "auto r = clamp(pa, pb, pb); (void)r;"),
    ("pt_round_as", "auto r = round_as(u1, pb); (void)r;"), ("pt_floor_in", "auto r = floor_in(u1, pb); (void)r;"),
    ("pt_data_in", "auto &r = pb.data_in(u1); (void)r;"),
]
INV_FORMS = [("inverse_as", "auto r = inverse_as(u1, b); (void)r;"), ("inverse_in", "auto r = inverse_in(u1, b); (void)r;"),
             ("inverse_as_rep", "auto r = inverse_as<double>(u1, b); (void)r;")]
TRAITS = [("is_convertible", "std::is_convertible<B, A>::value"), ("is_constructible", "std::is_constructible<A, B>::value"),
          ("has_common_type", "auv_has_common<A, B>::value"),
          ("pt_is_convertible", "std::is_convertible<PB, PA>::value"), ("pt_is_constructible", "std::is_constructible<PA, PB>::value"),
          ("q_from_pt", "std::is_convertible<PB, A>::value"), ("pt_from_q", "std::is_convertible<B, PA>::value")]
# the same questions with integral reps (the promotion carve-out and the overflow heuristic must not bypass the dimension guard)
INT_TRAITS = [("int_is_convertible", "std::is_convertible<BI, AI>::value"), ("int_is_constructible", "std::is_constructible<AI, BI>::value"),
              ("int_is_assignable", "std::is_assignable<AI &, BI>::value"), ("int_has_common_type", "auv_has_common<AI, BI>::value"),
              ("int_narrowing_is_convertible", "std::is_convertible<Quantity<U2, int64_t>, Quantity<U1, int8_t>>::value"),
              ("int_pt_is_convertible", "std::is_convertible<QuantityPoint<U2, int>, QuantityPoint<U1, int>>::value")]


BASE_UNITS = ("Meters", "Grams", "Seconds", "Amperes", "Kelvins", "Moles", "Candelas", "Radians", "Bits")


def merge_candidates(cat, rnd, count):
    """(x / y, t): t has the dimension x / y would have if two base dimensions occurring in it were identified.  Selection only."""
    base = {}
    for u in cat.values():
        if len(u["dim"]) == 1 and u["dim"][0]["n"] == 1 and u["dim"][0]["d"] == 1 and not u["mag"] and not u.get("origin"):
            base.setdefault(u["dim"][0]["b"], u["id"])
    ids = sorted(cat)
    out = []
    from fractions import Fraction

    def dim_of(x, y):
        d = {}
        for t in cat[x]["dim"]:
            d[t["b"]] = d.get(t["b"], 0) + Fraction(t["n"], t["d"])
        for t in cat[y]["dim"]:
            d[t["b"]] = d.get(t["b"], 0) - Fraction(t["n"], t["d"])
        return {k: v for k, v in d.items() if v != 0}

    def target(d, i, j):
        m = dict(d)
        m[j] = m[j] + m.pop(i)          # identify base dimension i with j
        m = {k: v for k, v in m.items() if v != 0}
        t = None
        for k in sorted(m):
            f = {"op": "unit", "id": base[k]}
            if m[k] != 1:
                f = {"op": "pow", "x": f, "r": [m[k].numerator, m[k].denominator]}
            t = f if t is None else {"op": "mul", "l": t, "r": f}
        return t or {"op": "unit", "id": "Unos"}
    pairs = [(x, y) for x in ids for y in ids if x != y]
    rnd.shuffle(pairs)
    # every unordered pair of base dimensions gets candidates; derived units first (a product of two bare base units may be rejected for
    # other reasons once their dimensions coincide)
    pairs.sort(key=lambda p: (len(cat[p[0]]["dim"]) == 1) + (len(cat[p[1]]["dim"]) == 1))
    per = {}
    for x, y in pairs:
        d = dim_of(x, y)
        ks = sorted(d)
        if len(ks) < 2 or any(k not in base for k in ks):
            continue
        for a in ks:
            for b in ks:
                if a < b and len(per.setdefault((a, b), [])) < (2 if count <= 40 else 6):
                    i, j = (a, b) if rnd.random() < 0.5 else (b, a)
                    per[(a, b)].append(({"op": "div", "l": {"op": "unit", "id": x}, "r": {"op": "unit", "id": y}}, target(d, i, j)))
    for k in sorted(per):
        out += per[k]
    return out


def decls(sp, e1, e2, rep="double"):
    return ("using U1 = std::remove_cv_t<decltype(%s)>; using U2 = std::remove_cv_t<decltype(%s)>;\n"
            "using A = Quantity<U1, %s>; using B = Quantity<U2, %s>; using PA = QuantityPoint<U1, %s>; using PB = QuantityPoint<U2, %s>;\n"
            "using AI = Quantity<U1, int>; using BI = Quantity<U2, int>;\nconstexpr auto u1 = U1{};\n" % (sp.inst(e1), sp.inst(e2), rep, rep, rep, rep))


def run(ctx):
    ctx.rule = ("TLC decides 'same dimension' for every ordered pair of unit expressions (library units incl. all base dimensions, dimensionless, "
                "compound, scaled, powered, prefixed); every operation needing a common unit is a guarded action.  Each disabled (pair, operation) "
                "is compiled as a one-statement probe that must fail with a diagnostic inside Au; the same statement on a same-dimension twin "
                "(same unit / same-dimension partner, floating rep) must compile; trait questions must answer false for mismatches and true for "
                "twins without a hard error (bisected to the single query).  Non-trivial = rejecting probes and trait queries on mismatched pairs.")
    ctx.assumptions += ["g++ 12 / clang++ 14 accept/reject verdicts are the observable", "unit definitions are inputs (catalogue)"]
    cat, pre = unitcat.extract(ctx)
    for b in unitcat.check_base_dims(ctx, cat):
        ctx.violation({"kind": "base units share a dimension", "unit": b["id"], "with": b["with"]},
                      "the base unit %s %s: %s" % (b["id"], ("and " + b["with"]) if b["with"] else "", b["why"]), detail=b)
    for idx, names in unitcat.base_dim_collisions(ctx):
        ctx.violation({"kind": "base dimensions indistinguishable", "names": names},
                      "the distinct base dimensions %s share the index %d: products and quotients mixing them cancel, so units of different dimension become "
                      "interchangeable (e.g. a unit of %s per %s is treated as dimensionless)" % (" and ".join(names), idx, names[0], names[1]), detail=names)
    prep_specs(ctx, cat, pre, ["Gen_DimGuard.tla", "Gen_DimGuard.cfg"])
    extra = merge_candidates(cat, random.Random(ctx.seed + 1), 40 if ctx.tier == "quick" else 400)
    ep = ctx.path("extra_pairs.ndjson")
    with open(ep, "w") as f:
        for a, b in extra:
            f.write(json.dumps({"e1": a, "e2": b}) + "\n")
    extra_keys = {(expr_str(a), expr_str(b)) for a, b in extra}
    g = ctx.tlc(ctx.path("Gen_DimGuard.tla"), env={"TIER": ctx.tier, "EXTRA": ep}, timeout=1800, name="dimension guards")
    if not g.ok or len(g.cases) != g.distinct or not g.cases:
        raise core.ToolError("Gen_DimGuard failed\n" + g.out[-1500:])
    pairs = g.cases
    sp = Speller(cat)
    hdrs = "\n".join('#include "%s"' % h for h in sp.headers()) + '\n#include "au/prefix.hh"'
    rnd = random.Random(ctx.seed)
    mism = [p for p in pairs if not p["samedim"]]
    # same-dimension twins: two *distinct* unit types of identical magnitude (and origin) fall under the documented ordering limitation
    # ... which concerns *named* units; two distinct compound units (products / quotients) of equal magnitude are ordinary valid operands
    compound = lambda e: e["op"] in ("mul", "div")
    same = [p for p in pairs if p["samedim"] and (not p["samemag"] or expr_str(p["e1"]) == expr_str(p["e2"]) or {expr_str(p["e1"]), expr_str(p["e2"])} == {"Celsius", "Kelvins"}
                                                  or (compound(p["e1"]) and compound(p["e2"])))]
    rnd.shuffle(mism)
    rnd.shuffle(same)
    nm, ns = (14, 12) if ctx.tier == "quick" else (120, 60)
    # always include the classic pairs
    def find(l, a, b):
        return [p for p in l if expr_str(p["e1"]) == a and expr_str(p["e2"]) == b]
    fixed = (find(mism, "Celsius", "Meters") + find(mism, "Meters", "Seconds") + find(mism, "Unos", "Radians") + find(mism, "Hertz", "Seconds") +
             find(mism, "Meters*[6^1/1]", "Seconds*[10^1/1]") + find(mism, "Seconds*[4^-2/1]", "Feet*[6^1/1]") + find(mism, "Seconds*[10^1/1]", "Meters*[6^1/1]") +
             find(mism, "Meters^3/2", "Feet^1/2") + find(mism, "Feet^1/2", "Meters^3/2") + find(mism, "Feet^2/3", "Meters^1/2") + find(mism, "Seconds^-1/2", "Seconds^-1"))
    merge = [p for p in mism if (expr_str(p["e1"]), expr_str(p["e2"])) in extra_keys] + [p for p in mism if expr_str(p["e2"]) == "Unos" and p["e1"]["op"] == "div" and p["e1"]["l"]["op"] == "unit" and p["e1"]["r"]["op"] == "unit"
             and p["e1"]["l"]["id"] in BASE_UNITS and p["e1"]["r"]["id"] in BASE_UNITS]
    mism = fixed + [p for p in mism if p not in fixed and p not in merge][:nm]
    same = (find(same, "(Newtons*Meters)", "(Watts*Seconds)") + find(same, "(Meters*Hertz)", "(Meters/Seconds)") + find(same, "(Watts*Seconds)", "(Newtons*Meters)") +
            find(same, "Meters", "Feet") + find(same, "Celsius", "Kelvins") + find(same, "Seconds", "Seconds") + find(same, "Seconds^-1/2", "kilo(Hertz)^1/2") +
            find(same, "Meters^3/2", "Meters^3/2") + find(same, "Feet^1/2", "Meters^1/2") + [p for p in same][:ns])
    cfgs = core.QUICK_CONFIGS if ctx.tier == "quick" else core.ALL_CONFIGS
    probe_cfgs = cfgs[:2] if ctx.tier == "quick" else cfgs
    pchf = {cfg: ctx.pch(cfg, "c01", PRELUDE % hdrs) for cfg in cfgs}

    def forms_for(cfg, p):
        f = list(Q_FORMS) + list(P_FORMS)
        if cfg.endswith("20"):
            f += Q_FORMS_20
        f += Q_FORMS_INT
        return f
    # ---- rejects: one probe per (pair, form, cfg)
    jobs = []
    for p in merge:
        for cfg in probe_cfgs:
            for name, stmt in Q_FORMS:
                if name in MERGE_FORMS:
                    jobs.append((p, cfg, name, stmt))
    for p in mism:
        for cfg in probe_cfgs:
            for name, stmt in forms_for(cfg, p):
                jobs.append((p, cfg, name, stmt))
            if not p["inv_samedim"]:
                for name, stmt in INV_FORMS:
                    jobs.append((p, cfg, name, stmt))

    def probe(job):
        p, cfg, name, stmt = job
        body = decls(sp, p["e1"], p["e2"]) + "void f(A a, B b, PA pa, PB pb, AI ai, BI bi) { %s }\nint main() {}\n" % stmt
        src = ctx.write("rej_%s_%s_%d.cc" % (cfg, name, abs(hash((expr_str(p["e1"]), expr_str(p["e2"])))) % 10**9), body)
        rc, out = ctx.cxx(src, cfg=cfg, syntax_only=True, opt="-O0", flags=pchf[cfg])
        return job, rc, out
    res = ctx.pmap(probe, jobs)
    ctx.programs += len(jobs)
    nrej = 0
    for (p, cfg, name, stmt), rc, out in res:
        nrej += 1
        if rc == 0:
            ctx.violation({"op": name, "U1": expr_str(p["e1"]), "U2": expr_str(p["e2"])},
                          "operation '%s' on %s vs %s (different dimensions) compiles [%s]: %s" % (name, expr_str(p["e1"]), expr_str(p["e2"]), cfg, stmt), detail=p)
    ctx.log("reject probes: %d" % nrej)
    # ---- twins: same statements on same-dimension pairs must compile (batched per pair; bisect on failure)
    ncomp = [0]

    def twin_tu(p, forms):
        L = [decls(sp, p["e1"], p["e2"])]
        for k, (name, stmt) in enumerate(forms):
            L.append("void f_%d_%s(A a, B b, PA pa, PB pb, AI ai, BI bi) { %s }" % (k, name, stmt))
        return "\n".join(L) + "\nint main() {}\n"

    def twin(job):
        p, cfg, forms = job
        ncomp[0] += 1
        src = ctx.write("twin_%s_%d.cc" % (cfg, ncomp[0]), twin_tu(p, forms))
        rc, out = ctx.cxx(src, cfg=cfg, syntax_only=True, opt="-O0", flags=pchf[cfg])
        if rc == 0:
            return []
        if len(forms) == 1:
            return [(p, cfg, forms[0], "\n".join([l for l in out.splitlines() if "error" in l][:3]))]
        h = len(forms) // 2
        return twin((p, cfg, forms[:h])) + twin((p, cfg, forms[h:]))
    tj = []
    for p in same:
        for cfg in cfgs:
            f = [x for x in forms_for(cfg, p) if x[0] not in SAME_UNIT_ONLY or expr_str(p["e1"]) == expr_str(p["e2"])]
            # origin-carrying units: point conversions between different origins need the displacement to fit; doubles always do
            tj.append((p, cfg, f + (INV_FORMS if p["inv_samedim"] else [])))
    tf = [f for lst in ctx.pmap(twin, tj) for f in lst]
    ctx.programs += ncomp[0]
    for p, cfg, (name, stmt), diag in tf:
        # the statement forms are fixed and compile on same-dimension twins of the unchanged tree, so a failure -- wherever the
        # compiler locates it (often at the call site: "no match for operator+=") -- is the library rejecting a valid program
        ctx.violation({"op": name, "U1": expr_str(p["e1"]), "U2": expr_str(p["e2"]), "kind": "twin-rejected"},
                      "operation '%s' on same-dimension %s vs %s (floating rep) is rejected [%s]: %s" % (name, expr_str(p["e1"]), expr_str(p["e2"]), cfg, diag[:300]), detail=p)
    ctx.log("twins: %d pairs x %d configs, %d compiles, %d failures" % (len(same), len(cfgs), ncomp[0], len(tf)))
    # ---- traits: false for mismatched, true for same-dimension (double rep); hard error bisected
    tcomp = [0]

    def trait_tu(items):
        L = []
        for k, (p, exp) in enumerate(items):
            L.append("namespace n%d {\n%s" % (k, decls(sp, p["e1"], p["e2"])))
            for name, expr in TRAITS:
                want = exp if name not in ("q_from_pt", "pt_from_q") else False
                L.append('static_assert(%s == %s, "t%d %s");' % (expr, "true" if want else "false", k, name))
            if not exp:
                for name, expr in INT_TRAITS:
                    L.append('static_assert(%s == false, "t%d %s");' % (expr, k, name))
            else:
                L.append('static_assert(auv_has_common<AI, BI>::value == true, "t%d int_has_common_type");' % k)
            L.append("}")
        return "\n".join(L) + "\nint main() {}\n"

    def trait(job):
        items, cfg = job
        tcomp[0] += 1
        src = ctx.write("trait_%s_%d.cc" % (cfg, tcomp[0]), trait_tu(items))
        rc, out = ctx.cxx(src, cfg=cfg, syntax_only=True, opt="-O0", flags=pchf[cfg] + (["-ferror-limit=0"] if cfg.startswith("c") else ["-fmax-errors=0"]))
        if rc == 0:
            return []
        errs = [l for l in out.splitlines() if "error" in l]
        asserts = re.findall(r'static.assert(?:ion)? failed[^\n"]*"?t(\d+) ([a-z_]+)', out)
        hard = [l for l in errs if not re.search(r'"?t\d+ [a-z_]+', l)]
        resl = [(items[int(k)][0], cfg, n, "answer") for k, n in set(asserts)]
        if hard:
            if len(items) == 1:
                resl.append((items[0][0], cfg, "trait", "\n".join(hard[:3])))
            else:
                h = len(items) // 2
                return trait((items[:h], cfg)) + trait((items[h:], cfg))
        return resl
    titems = [(p, False) for p in mism] + [(p, True) for p in same]
    chunks = [titems[k:k + 8] for k in range(0, len(titems), 8)]
    trf = [f for lst in ctx.pmap(trait, [(c, cfg) for c in chunks for cfg in cfgs]) for f in lst]
    ctx.programs += tcomp[0]
    for p, cfg, name, diag in trf:
        if diag != "answer" and not core.first_error_in_au(diag):
            raise core.ToolError("generated trait TU does not compile (generator bug?): %s" % diag[:600])
        ctx.violation({"op": "trait:" + name, "U1": expr_str(p["e1"]), "U2": expr_str(p["e2"]), "kind": "answer" if diag == "answer" else "hard-error"},
                      "trait question '%s' for %s vs %s (same dimension: %s) %s [%s]" % (
                          name, expr_str(p["e1"]), expr_str(p["e2"]), p["samedim"],
                          "answers wrongly" if diag == "answer" else "is a hard error: " + diag[:300], cfg), detail=p)
    ctx.log("trait TUs: %d compiles, %d failures" % (tcomp[0], len(trf)))
    ctx.evaluations += nrej + sum(len(j[2]) for j in tj) + len(titems) * len(TRAITS) * len(cfgs)
    ctx.nontrivial = nrej + len(mism) * len(TRAITS)
    ctx.sample({"pair": [expr_str(mism[0]["e1"]), expr_str(mism[0]["e2"])], "samedim": False, "forms": [f[0] for f in Q_FORMS[:6]], "verdict": "reject"})
    ctx.sample({"pair": [expr_str(same[0]["e1"]), expr_str(same[0]["e2"])], "samedim": True, "verdict": "accept"})
    ctx.layers["B"] = {"pairs_decided_by_TLC": len(pairs), "mismatched_pairs_probed": len(mism), "same_dimension_twins": len(same),
                       "reject_probes": nrej, "twin_compiles": ncomp[0], "trait_queries": len(titems) * len(TRAITS), "configs": cfgs}
