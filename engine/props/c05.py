"""C05: rep-changing conversions and their <T> checkers."""
import json
import random

from .. import core
from ..convcheck import CXX_T
from ..core import wire_to_int, fval

INT = ["i8", "u8", "i16", "u16", "i32", "u32", "i64", "u64"]


def layer_a(ctx):
    r = ctx.tlc("CastCheckers.tla", cfg="MC_CastCheckers.cfg", timeout=1200, name="layerA casts", coverage=True, allow_violation=True)
    if r.violated:
        raise core.ToolError("Layer A: invariant %s of CastCheckers.tla fails\n%s" % (r.violated, "\n".join(r.out.splitlines()[-30:])))
    ctx.layers["A"] = {"module": "CastCheckers.tla", "distinct": r.distinct, "generated": r.generated, "exhaustive": True}


def run(ctx):
    ctx.rule = ("Layer A: all values of every ordered pair of mini reps (integers and minifloats) through the modelled cast checkers. "
                "Layer B/C: TLC emits every ordered (source, target) rep pair x factor grid; integral pairs are swept against the "
                "TLC-computed three-stage contract (8/16-bit sources exhaustive), pairs with a floating type are logged around every "
                "target limit (nextafter chains), 2^digits, specials and seeded random values, and every record is judged by TLC with "
                "exact BigInt floating-point values.  Non-trivial = boundary/anchor/special inputs.")
    ctx.assumptions += ["LP64, x87 long double", "clang UBSan flags UB (incl. float-cast-overflow) inside the cleared conversion",
                        "TLC + pure-TLA+ BigInt"]
    layer_a(ctx)
    rnd = random.Random(ctx.seed)
    extra = []
    for _ in range(2 if ctx.tier == "quick" else 12):
        extra.append({"n": str(rnd.getrandbits(rnd.choice([4, 9, 17, 30])) | 1), "d": str((rnd.getrandbits(rnd.choice([4, 9, 17, 30])) | 1) + 2)})
    import math
    extra = [e for e in extra if math.gcd(int(e["n"]), int(e["d"])) == 1 and e["n"] != e["d"]]
    ep = ctx.path("extra.ndjson")
    with open(ep, "w") as f:
        for e in extra:
            f.write(json.dumps(e) + "\n")
    g = ctx.tlc("Gen_Cast.tla", env={"TIER": ctx.tier, "EXTRA": ep}, timeout=900, name="gen cast cases")
    if not g.ok or len(g.cases) != g.distinct or not g.cases:
        raise core.ToolError("Gen_Cast: %d cases / %d states\n%s" % (len(g.cases), g.distinct, g.out[-1500:]))
    cases = g.cases
    ii = [c for c in cases if c["k"] == "contract3" and c["compiles"]]
    skipped = [c for c in cases if c["k"] == "contract3" and not c["compiles"]]
    ff = [c for c in cases if c["k"] == "finst"]
    ctx.log("cases: %d integral instances (%d predicted non-compiling), %d floating-path instances" % (len(ii), len(skipped), len(ff)))

    def make_src(b):
        lines = ['#include "cast_sweep.hh"', "int main(int argc, char **argv) {", "  auv::COpts o = auv::parse_copts(argc, argv);"]
        for c in b:
            if c["k"] == "contract3":
                lines.append('  auv::sweep_ii<%s, %s, %sULL, %sULL>("%s", "%s", "%s", o);' % (
                    CXX_T[c["S"]], CXX_T[c["T"]], c["N"], c["D"], c["lo"], c["hi"], c["mod"]))
            else:
                lines.append('  auv::sweep_f<%s, %s, %sULL, %sULL>(o);' % (CXX_T[c["S"]], CXX_T[c["T"]], c["N"], c["D"]))
        return "\n".join(lines + ["  return 0;", "}"]) + "\n"
    groups = {}
    for c in ii + ff:
        groups.setdefault((c["S"], c["T"]), []).append(c)
    if ctx.tier == "quick":
        cfgs, args = ["c20", "g14"], ["--seed", str(ctx.seed), "--nrandom", "40", "--nbhd", "12", "--sample-shift", "14", "--fchain", "2"]
    else:
        cfgs, args = ["c20", "g14", "c14", "g20"], ["--seed", str(ctx.seed), "--nrandom", "300", "--nbhd", "40", "--sample-shift", "14", "--fchain", "4"]      # the floating path logs every value: keep it to ~10^6 records
    recs, dropped, nprog = core.harness_farm(ctx, groups, make_src, cfgs, args, batch=12, tag="cast")
    sums = [r for r in recs if r["k"] in ("sum", "sumf")]
    obs = [r for r in recs if r["k"] in ("castii", "castf")]
    swept = sum(s["swept"] for s in sums)
    ctx.evaluations += swept
    ctx.nontrivial += sum(s["nontrivial"] for s in sums if s["cfg"] == cfgs[0])
    ctx.log("swept %d conversions in %d programs; %d records to TLC; %d dropped" % (swept, nprog, len(obs), len(dropped)))
    limit = [d for d in dropped if "constexpr" in d[2] and "limit" in d[2]]
    real = [d for d in dropped if d not in limit]
    # an instance the specification predicts to compile (the conversion itself does) whose checkers / conversion are rejected inside Au:
    # the <T> checkers must be usable for every pair of arithmetic reps
    for d in real[:40]:
        if core.first_error_in_au(d[2]):
            ctx.violation({"S": d[0]["S"], "T": d[0]["T"], "N": d[0]["N"], "D": d[0]["D"], "kind": "rejected"},
                          "the <%s> checkers / conversion of a %s quantity by %s/%s do not compile [%s]: %s" % (d[0]["T"], d[0]["S"], d[0]["N"], d[0]["D"], d[1], d[2][:300]), detail=d[2])
        else:
            raise core.ToolError("cast harness does not compile (generator bug?): %s" % d[2][:600])
    nval, bad = ctx.tlc_batch_validate("Trace_Cast.tla", obs, name="cast", shards=core.NCPU)
    badkeys = set()
    for b in bad:
        r, v = b["rec"], b["v"]
        n, d = str(wire_to_int(r["N"])), str(wire_to_int(r["D"]))
        if r["k"] == "castii":
            x = str(wire_to_int(r["x"]))
            badkeys.add((r["S"], r["T"], n, d, x, r["cfg"]))
            if v["ok"] and not v["cmp"]:
                raise core.ToolError("contract/comparator disagrees with the specification: %s" % json.dumps(b))
            if not v["ok"]:
                ctx.violation({"S": r["S"], "T": r["T"], "N": n, "D": d, "x": x},
                              "is_conversion_lossy<%s>(%s x=%s, factor %s/%s): ovf=%d trunc=%d lossy=%d res=%s ub=%d; spec: some stage overflows=%s, truncates=%s" % (
                                  r["T"], r["S"], x, n, d, r["ovf"], r["trunc"], r["lossy"], wire_to_int(r["res"]), r["ub"], v["o3"], v["et"]), detail=b)
        else:
            x = fval(r["x"]) if "cls" in r["x"] else str(wire_to_int(r["x"]))
            res = fval(r["res"]) if "cls" in r["res"] else str(wire_to_int(r["res"]))
            ctx.violation({"S": r["S"], "T": r["T"], "N": n, "D": d, "x": x},
                          "conversion %s -> %s of x=%s by %s/%s: ovf=%d trunc=%d lossy=%d scaled=%s res=%s ub=%d forms=%d; spec: castable=%s result-ok=%s band-ok=%s" % (
                              r["S"], r["T"], x, n, d, r["ovf"], r["trunc"], r["lossy"], fval(r["y"]), res, r["ub"], r["forms"],
                              v["castok"], v["resok"], v["bandok"]), detail=b)
    for r in obs:
        if r["k"] == "castii" and r["why"] in ("mismatch", "forms"):
            k = (r["S"], r["T"], str(wire_to_int(r["N"])), str(wire_to_int(r["D"])), str(wire_to_int(r["x"])), r["cfg"])
            if k not in badkeys:
                raise core.ToolError("comparator mismatch not confirmed by TLC: %s" % json.dumps(r))
    for r in obs[:2] + [o for o in obs if o["k"] == "castf"][:3]:
        ctx.sample({k: (v if not isinstance(v, dict) else (fval(v) if "cls" in v else wire_to_int(v))) for k, v in r.items()})
    ctx.layers["BC"] = {"rep_pairs": len(groups), "integral_instances": len(ii), "floating_path_instances": len(ff),
                        "conversions_swept": swept, "records_validated_by_TLC": nval, "configs": cfgs,
                        "predicted_non_compiling_skipped": len(skipped), "dropped": len(dropped)}
    from .. import walks
    walks.run(ctx, {"RepCast"}, "rep_cast inside chains of operations", seed_offset=5)
