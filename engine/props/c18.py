"""C18: printed labels denote the actual unit."""
import json
import random
import re

from .. import core, unitcat
from ..unitexpr import Speller, expr_str
from .c02 import prep_specs

EXTRA = [("Trinches", "Trinches", "struct Trinches : decltype(Inches{} * mag<3>()) {};", ""),          # named, derived from a scaled labeled unit, no own label
         ("Smoots", "Smoots", 'struct Smoots : decltype(Inches{} * mag<67>()) { static constexpr const char label[] = "smoot"; };\nconstexpr const char Smoots::label[];', "smoot"),
         ("Bare", "Bare", "struct Bare : UnitImpl<Length> {};", ""),                                      # named base-like unit without label
         ("SqFt", "SqFt", "struct SqFt : decltype(pow<2>(Feet{})) {};", "")]                               # named unit derived from a power (no label member to inherit)


def canon(label):
    """order-insensitive form: factors inside products and members of EQUIV{...} are free (DESIGN 11a)"""
    def sort_group(g):
        inner = g[1:-1] if g.startswith("(") and g.endswith(")") and " * " in g else g
        parts = sorted(inner.split(" * "))
        return "(" + " * ".join(parts) + ")" if inner is not g else " * ".join(parts)
    sides = label.split(" / ") if not label.startswith("[") else [label]
    return " / ".join(sort_group(s) for s in sides)


def run(ctx):
    ctx.rule = ("TLC's label grammar (Labels.tla, string operators over the unit types of Units.tla, BigInt decimal digits) predicts the label of every "
                "emitted expression: all library units x powers (incl. negative, fractional), scalings, all 32 prefixes; depth-2 products/quotients; "
                "three-factor quotients; user-style derived units with and without an own label; scalings by every integer class up to 2^64-1, "
                "beyond, and rationals.  The compiled types' label bytes, sizeof, strlen and NUL are read out and every record is judged by TLC "
                "(string equality, size = length + 1); IToA/UIToA on boundary and seeded 64-bit arguments against BigInt decimal digits; "
                "streamed quantities (8-bit reps print numbers) against value ++ ' ' ++ label.  A mismatch that is only a reordering of product "
                "factors is reported as MODEL-DRIFT, not as a violation.  Non-trivial = expressions that are not a bare labeled unit.")
    ctx.assumptions += ["own labels of units are inputs (catalogue); a derived unit that declares no label is expected to print the unlabeled marker (docs/howto/new-units)"]
    extra = [(i, t, pre) for (i, t, pre, _l) in EXTRA]
    cat, pre = unitcat.extract(ctx, extra_units=extra)
    for b in unitcat.check_prefixes(ctx, pre, "symbol"):
        ctx.violation({"kind": "prefix", "prefix": b["prefix"]}, "the prefix %s is not printed with its SI / IEC symbol (read out of %s<Meters>)" % (b["prefix"], b["prefix"][0].upper() + b["prefix"][1:]), detail=b)
    for (i, _t, _p, own) in EXTRA:
        cat[i]["own_label"] = own
        cat[i]["header"] = "au/units/inches.hh"
    prep_specs(ctx, cat, pre, ["Gen_Labels.tla", "Gen_Labels.cfg", "Trace_Labels.tla", "Trace_Labels.cfg", "Gen_Common.tla", "Gen_Common.cfg", "Trace_CULabels.tla", "Trace_CULabels.cfg"])
    g = ctx.tlc(ctx.path("Gen_Labels.tla"), timeout=1800, name="label expressions")
    if not g.ok or len(g.cases) != g.distinct or not g.cases:
        raise core.ToolError("Gen_Labels failed\n" + g.out[-1500:])
    cases = [c for c in g.cases if not c["excluded"]]
    rnd = random.Random(ctx.seed)
    if ctx.tier == "quick":
        d2 = [c for c in cases if c["e"]["op"] in ("mul", "div")]
        rest = [c for c in cases if c["e"]["op"] not in ("mul", "div")]
        rnd.shuffle(d2)
        cases = rest + d2[:1500]
    for i, c in enumerate(cases):
        c["i"] = i
    sp = Speller(cat)
    hdrs = "\n".join('#include "%s"' % h for h in sp.headers()) + '\n#include "au/prefix.hh"\n#include "au/io.hh"\n#include <sstream>\n'
    decls = "\n".join(p for (_i, _t, p, _l) in EXTRA)

    def make_src(b):
        L = ['#include "au/au.hh"', hdrs, '#include "wire.hh"', "#include <cstring>", "using namespace au;", decls,
             "template <typename U> void lab(int i, U u) { const auto &l = unit_label(u); std::printf(\"{\\\"k\\\":\\\"label\\\",\\\"i\\\":%d,\\\"label\\\":\\\"%s\\\",\\\"size\\\":%d,\\\"len\\\":%d,\\\"nul\\\":%d}\\n\", i, json_escape(l).c_str(), (int)sizeof(l), (int)std::strlen(l), (int)(l[sizeof(l) - 1] == 0)); }",
             "int main() {"]
        for c in b:
            L.append("  lab(%d, %s);" % (c["i"], sp.inst(c["e"])))
        return "\n".join(L + ["  return 0;", "}"]) + "\n"
    cfgs = core.QUICK_CONFIGS if ctx.tier == "quick" else core.ALL_CONFIGS
    recs, dropped, nprog = core.harness_farm(ctx, {"lab": cases}, make_src, cfgs, [], batch=150, tag="lab", opt="-O0")
    byi = {c["i"]: c for c in cases}
    for d in dropped:
        if not core.first_error_in_au(d[2]):
            raise core.ToolError("label harness does not compile (generator bug?): %s" % d[2][:800])
        ctx.violation({"expr": expr_str(d[0]["e"]), "kind": "rejected"}, "unit_label of %s does not compile [%s]: %s" % (expr_str(d[0]["e"]), d[1], d[2][:300]), detail=d[2])
    obs = [dict(r, e=byi[r["i"]]["e"]) for r in recs if r["k"] == "label"]
    # ---- IToA / UIToA and streaming
    ns = [0, 1, 9, 10, 11, 99, 100, 999, 1000, 2147483647, 2147483648, 4294967295, 4294967296, 9223372036854775807, 999999999999999999, 1000000000000000000] + [rnd.getrandbits(rnd.choice([5, 17, 33, 47, 62])) for _ in range(24)]
    us = ns + [9223372036854775808, 18446744073709551615, 10000000000000000000, 9999999999999999999] + [rnd.getrandbits(64) for _ in range(16)]
    L = ['#include "au/au.hh"', '#include "au/io.hh"', '#include "au/units/meters.hh"', '#include "au/units/inches.hh"', '#include "au/units/feet.hh"', '#include "wire.hh"', "#include <sstream>", "#include <cstring>", "using namespace au;", decls,
         'struct NoName : decltype(Inches{} * mag<5>()) { static constexpr const char label[] = ""; };\nconstexpr const char NoName::label[];',
         "template <typename S> void it(const char *kind, i128 n, const S &s) { const auto &l = detail::as_char_array(s); std::printf(\"{\\\"k\\\":\\\"itoa\\\",\\\"kind\\\":\\\"%s\\\",\\\"n\\\":%s,\\\"text\\\":\\\"%s\\\",\\\"size\\\":%d}\\n\", kind, wire(n).c_str(), l, (int)sizeof(l)); }",
         "template <typename Q> void st(const char *rep, i128 v, Q q) { std::ostringstream os; os << q; std::printf(\"{\\\"k\\\":\\\"stream\\\",\\\"R\\\":\\\"%s\\\",\\\"value\\\":%s,\\\"text\\\":\\\"%s\\\",\\\"label\\\":\\\"%s\\\"}\\n\", rep, wire(v).c_str(), json_escape(os.str().c_str()).c_str(), json_escape(unit_label(typename Q::Unit{})).c_str()); }",
         "int main() {"]
    for n in ns:
        L.append('  it("IToA", (i128)%dLL, detail::IToA<%dLL>::value);' % (n, n))
        if n and n <= 9223372036854775807:
            L.append('  it("IToA", -(i128)%dLL, detail::IToA<-%dLL>::value);' % (n, n))
    for n in us:
        L.append('  it("UIToA", (i128)%dULL, detail::UIToA<%dULL>::value);' % (n, n))
    for rep, vals in (("int8_t", [65, -5, 127, -128, 0]), ("uint8_t", [65, 200, 255]), ("char", [65, 48, 10, 0, 127]), ("signed char", [66, -3]), ("unsigned char", [67, 250]), ("int16_t", [-32768, 12345]), ("int", [2147483647, -7]), ("int64_t", [-9223372036854775807, 42]), ("uint64_t", [18446744073709551615])):
        for v in vals:
            lit = "%dULL" % v if rep == "uint64_t" else "%dLL" % v
            L.append('  st("%s", (i128)%s, meters((%s)%s)); st("%s", (i128)%s, make_quantity<Trinches>((%s)%s)); st("%s", (i128)%s, (inches * mag<3>() / mag<7>())((%s)%s));' % (rep, lit, rep, lit, rep, lit, rep, lit, rep, lit, rep, lit))
            # units whose label is the empty string (everything cancels; a user unit labelled ""): value, one space, then nothing
            L.append('  st("%s", (i128)%s, (feet / feet)((%s)%s)); st("%s", (i128)%s, make_quantity<UnitProductT<>>((%s)%s)); st("%s", (i128)%s, make_quantity<NoName>((%s)%s));' % (rep, lit, rep, lit, rep, lit, rep, lit, rep, lit, rep, lit))
    src = ctx.write("itoa.cc", "\n".join(L + ["  return 0;", "}"]) + "\n")
    for cfg in cfgs[:2]:
        exe = ctx.path("itoa_" + cfg)
        rc, out = ctx.cxx(src, exe, cfg=cfg, opt="-O0", flags=[core.HARNESS + "/noub.cc"])
        if rc != 0:
            errs = "\n".join([l for l in out.splitlines() if "error" in l][:4])
            if core.first_error_in_au(errs):
                ctx.violation({"kind": "itoa/stream rejected"}, "IToA/UIToA/streaming program does not compile [%s]: %s" % (cfg, errs[:400]), detail=errs)
                continue
            raise core.ToolError("itoa program does not compile: " + errs)
        for r in ctx.run_ndjson(exe):
            r["cfg"] = cfg
            obs.append(r)
        ctx.programs += 1
    # ---- labels of common units
    gc = ctx.tlc(ctx.path("Gen_Common.tla"), env={"TIER": "quick"}, timeout=1800, name="common-unit lists for labels", count=False)
    lists = [c for c in gc.cases if c["rational"] and not c["excluded"]]
    rnd.shuffle(lists)
    lists = lists[: (250 if ctx.tier == "quick" else 1500)]
    for i, c in enumerate(lists):
        c["i"] = i

    def cu_src(b):
        L = ['#include "au/au.hh"', hdrs, '#include "wire.hh"', "#include <cstring>", "using namespace au;", decls,
             "template <typename U> void lab(int i, U u) { const auto &l = unit_label(u); std::printf(\"{\\\"k\\\":\\\"culabel\\\",\\\"i\\\":%d,\\\"label\\\":\\\"%s\\\",\\\"size\\\":%d,\\\"len\\\":%d,\\\"nul\\\":%d}\\n\", i, json_escape(l).c_str(), (int)sizeof(l), (int)std::strlen(l), (int)(l[sizeof(l) - 1] == 0)); }",
             "int main() {"]
        for c in b:
            L.append("  lab(%d, CommonUnitT<%s>{});" % (c["i"], ", ".join(sp.type(e) for e in c["es"])))
        return "\n".join(L + ["  return 0;", "}"]) + "\n"
    curecs, cudropped, _n = core.harness_farm(ctx, {"cu": lists}, cu_src, [cfgs[0]] if not isinstance(cfgs, str) else [cfgs], [], batch=60, tag="culab", opt="-O0")
    for d in cudropped:
        if not core.first_error_in_au(d[2]):
            raise core.ToolError("common-unit label harness does not compile (generator bug?): %s" % d[2][:800])
        ctx.violation({"list": ", ".join(expr_str(e) for e in d[0]["es"]), "kind": "common-unit label rejected"}, "unit_label of CommonUnitT<%s> does not compile [%s]: %s" % (
            ", ".join(expr_str(e) for e in d[0]["es"]), d[1], d[2][:300]), detail=d[2])

    def split_elems(label):
        if not (label.startswith("EQUIV{") and label.endswith("}")):
            return [label]
        inner, out, depth, cur = label[6:-1], [], 0, ""
        k = 0
        while k < len(inner):
            ch = inner[k]
            depth += ch in "[(" 
            depth -= ch in "])"
            if depth == 0 and inner.startswith(", ", k):
                out.append(cur)
                cur = ""
                k += 2
                continue
            cur += ch
            k += 1
        return out + [cur]
    cuobs = [dict(r, es=lists[r["i"]]["es"], elems=split_elems(r["label"])) for r in curecs if r.get("k") == "culabel"]
    ncu, cubad = ctx.tlc_batch_validate(ctx.path("Trace_CULabels.tla"), cuobs, name="culabels", shards=min(core.NCPU, 8), timeout=3000)
    for b in cubad:
        r = b["rec"]
        ctx.violation({"list": ", ".join(expr_str(e) for e in r["es"]), "kind": "common-unit label"},
                      "unit_label(CommonUnitT<%s>) = \"%s\" (sizeof %d); each element must be one of %s, without repetition [%s]" % (
                          ", ".join(expr_str(e) for e in r["es"]), r["label"], r["size"], sorted(b["expected"]), r["cfg"]), detail=b)
    ctx.layers["common_unit_labels"] = {"lists": len(lists), "records_validated_by_TLC": ncu}
    nval, bad = ctx.tlc_batch_validate(ctx.path("Trace_Labels.tla"), obs, name="labels", shards=core.NCPU)
    ndrift = 0
    for b in bad:
        r = b["rec"]
        if r["k"] == "label":
            exp = b["expected"]
            size_ok = r["size"] == r["len"] + 1 and r["nul"] == 1 and r["len"] == len(r["label"].encode())
            if size_ok and canon(r["label"]) == canon(exp) and r["label"] != exp:
                ndrift += 1
                continue
            ctx.violation({"expr": expr_str(r["e"]), "kind": "label"}, "unit_label(%s) = \"%s\" (sizeof %d, strlen %d); the grammar assigns \"%s\" [%s]" % (
                expr_str(r["e"]), r["label"], r["size"], r["len"], exp, r["cfg"]), detail=b)
        elif r["k"] == "itoa":
            ctx.violation({"kind": r["kind"], "n": str(core.wire_to_int(r["n"]))}, "%s<%d> = \"%s\" (size %d) [%s]" % (r["kind"], core.wire_to_int(r["n"]), r["text"], r["size"], r["cfg"]), detail=b)
        else:
            ctx.violation({"kind": "stream", "R": r["R"], "value": str(core.wire_to_int(r["value"])), "label": r["label"]},
                          "streaming %s value %d prints \"%s\"; expected the decimal value, one space, then \"%s\" [%s]" % (r["R"], core.wire_to_int(r["value"]), r["text"], r["label"], r["cfg"]), detail=b)
    if ndrift:
        ctx.model_drift("%d labels differ from the model only in the order of product factors" % ndrift)
    ctx.evaluations += len(obs)
    ctx.nontrivial = len([c for c in cases if c["e"]["op"] != "unit"])
    for r in [o for o in obs if o["k"] == "label"][100:103] + [o for o in obs if o["k"] != "label"][:2]:
        ctx.sample({k: (v if not isinstance(v, dict) or k == "e" else core.wire_to_int(v)) for k, v in r.items() if k != "e"} | ({"expr": expr_str(r["e"])} if "e" in r else {}))
    ctx.layers["BC"] = {"expressions": len(cases), "records_validated_by_TLC": nval, "itoa_arguments": len(ns) * 2 + len(us), "configs": cfgs, "order_only_differences": ndrift}
    ctx.states = max(ctx.states, 1)
