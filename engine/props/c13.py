"""C13: Quantity is a zero-overhead transparent wrapper around its rep."""
import json

from .. import core, unitcat
from ..convcheck import CXX_T
from ..core import wire_to_int
from ..unitexpr import Speller

OPS_CPP = {  # op -> expression on quantity a,b / scalar; `q` must have rep = expected
    "add": "a + b", "sub": "a - b", "mod": "a % b", "uplus": "+a", "uminus": "-a",
    "mul_int": "a * 3", "int_mul": "3 * a", "mul_double": "a * 2.5", "mul_rep": "a * R{2}", "div_int": "a / 3", "div_double": "a / 2.5", "div_rep": "a / R{2}",
    "pluseq": "a += b", "minuseq": "a -= b", "muleq_rep": "a *= R{2}", "diveq_rep": "a /= R{2}",
}
RAW_CPP = {"add": "x + y", "sub": "x - y", "mod": "x % y", "uplus": "+x", "uminus": "-x", "mul_int": "x * 3", "int_mul": "3 * x", "mul_double": "x * 2.5",
           "mul_rep": "x * R{2}", "div_int": "x / 3", "div_double": "x / 2.5", "div_rep": "x / R{2}", "pluseq": "x += y", "minuseq": "x -= y",
           "muleq_rep": "x *= R{2}", "diveq_rep": "x /= R{2}"}


def run(ctx):
    ctx.rule = ("Layer A/B: TLC derives the (operator, rep) -> result-rep table of the raw C++ operators (integral promotion, usual arithmetic "
                "conversions) and emits it; every entry is compiled as decltype assertions on Quantity (result rep and agreement with the raw "
                "operator's own type), together with layout facts (sizeof, alignof, trivially copyable/destructible, standard layout, R{} "
                "default) for every library unit and generated compound units x 11 reps, Quantity and QuantityPoint.  Layer C: every 8-bit "
                "operand pair (boundary/random for wider reps) through + - % unary+- += -= *= /= scalar * / and the six comparisons next to the raw "
                "operator (bit comparison), sampled records judged by TLC (BigInt integer semantics); floats: operators and unit(x).in(unit) "
                "bit-for-bit incl. NaN payloads, infinities, signed zeros (all 2^32 float patterns in the thorough tier).  Non-trivial = operand "
                "pairs on type limits / promotion boundaries and special floating values.")
    ctx.assumptions += ["LP64, two's complement", "raw twin computed in the same translation unit with the same compiler flags", "raw operations that are UB (signed overflow, /0, min % -1) are outside the domain"]
    g = ctx.tlc("Gen_Wrapper.tla", timeout=600, name="operator/rep table")
    if not g.ok or len(g.cases) != g.distinct or not g.cases:
        raise core.ToolError("Gen_Wrapper failed\n" + g.out[-1500:])
    table = g.cases
    cat, pre = unitcat.extract(ctx)
    sp = Speller(cat)
    cfgs = core.QUICK_CONFIGS if ctx.tier == "quick" else core.ALL_CONFIGS
    hdrs = "\n".join('#include "%s"' % h for h in sp.headers()) + '\n#include "au/prefix.hh"'
    units = sorted(cat) + ["decltype(Meters{} / Seconds{})", "decltype(pow<2>(Meters{}) * Grams{} / pow<3>(Seconds{}))", "Kilo<Meters>", "decltype(Feet{} * mag<3>() / mag<7>())",
                           "decltype(root<2>(Hertz{}))", "UnitProductT<>"]
    reps = list(CXX_T)
    # ---- layout TUs
    def layout_tu(us):
        L = ['#include "au/au.hh"', hdrs, "#include <type_traits>", "using namespace au;",
             "template <class U, class R> struct LayoutOK { using Q = Quantity<U, R>; using P = QuantityPoint<U, R>;",
             "  static_assert(sizeof(Q) == sizeof(R) && alignof(Q) == alignof(R), \"quantity size/alignment\");",
             "  static_assert(sizeof(P) == sizeof(R) && alignof(P) == alignof(R), \"point size/alignment\");",
             "  static_assert(std::is_trivially_copyable<Q>::value && std::is_trivially_destructible<Q>::value && std::is_standard_layout<Q>::value, \"quantity triviality\");",
             "  static_assert(std::is_trivially_copyable<P>::value && std::is_trivially_destructible<P>::value && std::is_standard_layout<P>::value, \"point triviality\");",
             "  static_assert(Q{}.in(U{}) == R{}, \"quantity default value\"); static constexpr bool value = true; };"]
        for k, u in enumerate(us):
            for r in reps:
                L.append('static_assert(LayoutOK<%s, %s>::value, "layout %d %s");' % (u, CXX_T[r], k, r))
        return "\n".join(L) + "\nint main() {}\n"
    nlay = [0]

    def lay(job):
        us, cfg = job
        nlay[0] += 1
        src = ctx.write("layout_%s_%d.cc" % (cfg, nlay[0]), layout_tu(us))
        rc, out = ctx.cxx(src, cfg=cfg, syntax_only=True, opt="-O0", flags=(["-ferror-limit=0"] if cfg.startswith("c") else ["-fmax-errors=0"]))
        if rc == 0:
            return []
        if len(us) == 1:
            return [(us[0], cfg, "\n".join([l for l in out.splitlines() if "error" in l][:4]))]
        h = len(us) // 2
        return lay((us[:h], cfg)) + lay((us[h:], cfg))
    chunks = [units[k:k + 16] for k in range(0, len(units), 16)]
    lf = [f for lst in ctx.pmap(lay, [(c, cfg) for c in chunks for cfg in cfgs]) for f in lst]
    for u, cfg, diag in lf:
        ctx.violation({"unit": u, "kind": "layout"}, "layout facts of Quantity/QuantityPoint<%s, R> fail [%s]: %s" % (u, cfg, diag[:400]), detail=diag)
    ctx.programs += nlay[0]
    # ---- result-type table
    def type_tu(rows):
        L = ['#include "au/au.hh"', '#include "au/units/meters.hh"', "#include <type_traits>", "using namespace au;"]
        for k, row in enumerate(rows):
            R, RR = CXX_T[row["R"]], CXX_T[row["rr"]]
            L.append("namespace t%d { using R = %s; inline void f(Quantity<Meters, R> a, Quantity<Meters, R> b, R x, R y) {" % (k, R))
            L.append('  static_assert(std::is_same<std::remove_reference_t<decltype(%s)>, Quantity<Meters, %s>>::value, "tt %d %s %s spec-type");' % (OPS_CPP[row["op"]], RR, k, row["op"], row["R"]))
            L.append('  static_assert(std::is_same<typename std::remove_reference_t<decltype(%s)>::Rep, std::remove_reference_t<decltype(%s)>>::value, "tt %d %s %s raw-type");' % (OPS_CPP[row["op"]], RAW_CPP[row["op"]], k, row["op"], row["R"]))
            L.append('  static_assert(std::is_lvalue_reference<decltype(%s)>::value == std::is_lvalue_reference<decltype(%s)>::value, "tt %d %s %s value-category");' % (OPS_CPP[row["op"]], RAW_CPP[row["op"]], k, row["op"], row["R"]))
            L.append("  (void)a; (void)b; (void)x; (void)y; } }")
        return "\n".join(L) + "\nint main() {}\n"
    import re
    tfail = []
    for cfg in cfgs:
        src = ctx.write("types_%s.cc" % cfg, type_tu(table))
        rc, out = ctx.cxx(src, cfg=cfg, syntax_only=True, opt="-O0", flags=(["-ferror-limit=0"] if cfg.startswith("c") else ["-fmax-errors=0"]))
        ctx.programs += 1
        if rc != 0:
            hits = set(re.findall(r'"?tt (\d+) (\w+) (\w+) ([a-z\-]+)', out))
            errs = [l for l in out.splitlines() if "error" in l]
            if not hits:
                if core.first_error_in_au(errs):
                    ctx.violation({"kind": "operators-rejected"}, "same-unit operators do not compile [%s]: %s" % (cfg, "\n".join(errs[:4])[:500]), detail=errs[:10])
                else:
                    raise core.ToolError("type-table TU does not compile: " + "\n".join(errs[:6]))
            hard = [l for l in errs if not re.search(r'tt \d+ \w+ \w+', l)]
            for k, op, r, kind in hits:
                tfail.append((op, r, kind, cfg))
            if hard and hits:
                for l in hard[:3]:
                    if core.first_error_in_au([l]):
                        ctx.violation({"kind": "operators-rejected", "diag": l[-120:]}, "same-unit operator rejected [%s]: %s" % (cfg, l[:300]), detail=hard[:6])
    for op, r, kind, cfg in tfail:
        ctx.violation({"op": op, "R": r, "kind": kind}, "result type of same-unit '%s' on rep %s differs from the %s [%s]" % (op, r, "specification's table" if kind == "spec-type" else "raw operator's type", cfg), detail=None)
    ctx.log("layout: %d unit types x %d reps, %d failures; type table: %d rows, %d failures" % (len(units), len(reps), len(lf), len(table), len(tfail)))
    # ---- run-time twin sweep
    def make_src(b):
        L = ['#include "wrapper_sweep.hh"', "int main(int argc, char **argv) {", "  auv::WOpts o = auv::parse_wopts(argc, argv);"]
        for r in b:
            if r in ("f32", "f64", "f80"):
                L.append("  auv::float_ops<%s, %s>(o);" % (CXX_T[r], {"f32": "uint32_t", "f64": "uint64_t", "f80": "uint64_t"}[r]))
            elif r == "allf32":
                L.append("  auv::all_float32_patterns();")
            else:
                L.append("  auv::int_ops<%s>(o);" % CXX_T[r])
        return "\n".join(L + ["  return 0;", "}"]) + "\n"
    items = list(reps) + (["allf32"] if ctx.tier == "thorough" else [])
    args = ["--seed", str(ctx.seed), "--nrandom", "3000" if ctx.tier == "quick" else "300000", "--nfloat", str(1 << 22 if ctx.tier == "quick" else 1 << 26)]
    recs, dropped, nprog = core.harness_farm(ctx, {i: [i] for i in items}, make_src, cfgs[:2] if ctx.tier == "quick" else cfgs, args, batch=1, tag="wrap")
    for d in dropped:
        if not core.first_error_in_au(d[2]):
            raise core.ToolError("wrapper harness does not compile: %s" % d[2][:600])
        ctx.violation({"R": d[0], "kind": "operators-rejected"}, "same-unit operators on rep %s do not compile [%s]: %s" % (d[0], d[1], d[2][:400]), detail=d[2])
    sums = [r for r in recs if r["k"] == "wsum"]
    obs = [r for r in recs if r["k"] == "raw"]
    for r in recs:
        if r["k"] == "fmis":
            ctx.violation({"R": r["R"], "what": r["what"], "x": core.fval(r["x"])}, "floating %s differs bit-wise from the raw value/operator: R=%s x=%s y=%s [%s]" % (
                r["what"], r["R"], core.fval(r["x"]), core.fval(r["y"]) if "y" in r else "-", r["cfg"]), detail=r)
    ctx.evaluations += sum(s["n"] for s in sums)
    nval, bad = ctx.tlc_batch_validate("Trace_Wrapper.tla", obs, name="wrapper", shards=core.NCPU)
    for b in bad:
        r, v = b["rec"], b["v"]
        ctx.violation({"op": r["op"], "R": r["R"], "x": str(wire_to_int(r["x"])), "y": str(wire_to_int(r["y"]))},
                      "same-unit '%s' on %s(%d, %d) gives %d in rep %s; raw semantics: %s in rep %s [%s, %s]" % (
                          r["op"], r["R"], wire_to_int(r["x"]), wire_to_int(r["y"]), wire_to_int(r["res"]), r["rrep"], v["expect"], v["rr"], r["why"], r["cfg"]), detail=b)
    ctx.nontrivial = len(obs)
    for r in obs[:3]:
        ctx.sample({k: (wire_to_int(v) if isinstance(v, dict) else v) for k, v in r.items()})
    ctx.sample(table[0])
    ctx.layers["B"] = {"layout_types": len(units) * len(reps) * 2, "type_table_rows": len(table), "configs": cfgs}
    ctx.layers["C"] = {"operations_compared_with_raw_twin": sum(s["n"] for s in sums), "records_validated_by_TLC": nval, "mismatches": sum(s["mismatches"] for s in sums)}
    ctx.states = max(ctx.states, 1)
    from .. import walks
    walks.run(ctx, {"MulInt", "DivInt", "Neg"}, "scalar * and unary - inside chains of operations", seed_offset=13)
