"""C07: the common unit is the gcd unit, symmetric in its inputs."""
import itertools
import os
import random
import re
import shutil

from .. import core, unitcat
from ..unitexpr import Speller, expr_str, mag_from_den
from .c02 import prep_specs, PRELUDE

MAGKEYS = r'''
template <typename B> struct KeyOf { static long long get() { return 2 * (long long)B::value(); } };
template <> struct KeyOf<Pi> { static long long get() { return 7; } };
template <typename P> struct MagKeys;
template <> struct MagKeys<Magnitude<>> { static std::string get() { return ""; } };
template <typename BP, typename... R> struct MagKeys<Magnitude<BP, R...>> { static std::string get() {
  std::string t = "{\"b\":" + std::to_string(KeyOf<BaseT<BP>>::get()) + ",\"n\":" + std::to_string((long long)ExpT<BP>::num) + ",\"d\":" + std::to_string((long long)ExpT<BP>::den) + "}";
  std::string r = MagKeys<Magnitude<R...>>::get(); return r.empty() ? t : t + "," + r; } };
'''


def run(ctx):
    ctx.rule = ("Layer A: every list of length 2..3 (with repetition, every permutation, one extra repetition) over an 11-unit same-dimension "
                "family (named, prefixed, anonymous scaled, quantity-equivalent but distinct, pi- and sqrt-scaled) through the modelled "
                "pipeline FlatSort / Eliminate / FirstMatch / Simplify: magnitude = base-wise minimum, integer and jointly coprime "
                "cofactors, result is an input when possible, type independent of order/repetition, nesting equivalent.  Layer B: TLC emits "
                "all pairs and seeded triples/quadruples of six real unit families with each input's cofactor; compiled assertions: every "
                "permutation and a repetition give the identical type, unit_ratio(U_i, C) equals the emitted integer, the result is one of the "
                "equivalent inputs, nesting is quantity-equivalent, std::common_type of the Quantity types uses it.  Layer C: cofactor packs "
                "read out of the compiled types and judged by TLC.  Non-trivial = lists with at least two distinct units.")
    ctx.assumptions += ["unit definitions are inputs (catalogue)", "lists with two distinct unit types of identical dimension, magnitude and origin that the ordering cannot separate are excluded (documented limitation)"]
    cat, pre = unitcat.extract(ctx)
    prep_specs(ctx, cat, pre, ["MC_CommonUnit.tla", "Gen_Common.tla", "Gen_Common.cfg", "Trace_Common.tla", "Trace_Common.cfg"])
    invs = "GcdMagnitude SameDim IntegerCofactors JointlyCoprime IsAnInputWhenPossible Symmetric Nesting"
    mcfg = ctx.write("MC_CommonUnit.cfg", "CONSTANTS Cat <- CatDef Pre <- PrefixDef MaxLen = 3\nSPECIFICATION Spec\nINVARIANTS %s\n" % invs)
    import concurrent.futures as _cf
    _ex = _cf.ThreadPoolExecutor(max_workers=1)
    _fa = _ex.submit(lambda: ctx.tlc(ctx.path("MC_CommonUnit.tla"), cfg=mcfg, timeout=3000, name="layerA common unit", xmx="16g", workers=6, allow_violation=True))

    def finish_layer_a():
        a = _fa.result()
        if a.violated:
            raise core.ToolError("Layer A: invariant %s of MC_CommonUnit fails\n%s" % (a.violated, "\n".join(a.out.splitlines()[-30:])))
        ctx.layers["A"] = {"module": "MC_CommonUnit.tla (CommonUnit.tla)", "distinct": a.distinct, "invariants": invs.split(), "exhaustive": True}
    g = ctx.tlc(ctx.path("Gen_Common.tla"), env={"TIER": ctx.tier}, timeout=1800, name="gen common-unit lists")
    if not g.ok or len(g.cases) != g.distinct or not g.cases:
        raise core.ToolError("Gen_Common failed\n" + g.out[-1500:])
    cases = [c for c in g.cases if not c["excluded"]]
    sp = Speller(cat)
    rnd = random.Random(ctx.seed)
    for i, c in enumerate(cases):
        c["i"] = i
    cfgs = core.QUICK_CONFIGS if ctx.tier == "quick" else core.ALL_CONFIGS
    hdrs = "\n".join('#include "%s"' % h for h in sp.headers()) + '\n#include "au/prefix.hh"'
    stats = {"permutations": 0, "cofactors": 0, "is_input": 0, "nesting": 0}

    def tu(lst):
        L = [PRELUDE % hdrs]
        for c in lst:
            k = c["i"]
            ts = [sp.type(e) for e in c["es"]]
            n = len(ts)
            for j, t in enumerate(ts):
                L.append("using T%d_%d = %s;" % (k, j, t))
            names = ["T%d_%d" % (k, j) for j in range(n)]
            L.append("using C%d = CommonUnitT<%s>;" % (k, ", ".join(names)))
            perms = list(itertools.permutations(range(n)))
            if n == 4:
                perms = rnd.sample(perms, 8)
            for p in perms:
                if list(p) == list(range(n)):
                    continue
                stats["permutations"] += 1
                L.append('static_assert(std::is_same<CommonUnitT<%s>, C%d>::value, "c%d permutation-%s");' % (", ".join(names[x] for x in p), k, k, "".join(map(str, p))))
            L.append('static_assert(std::is_same<CommonUnitT<%s>, C%d>::value, "c%d repetition");' % (", ".join([names[n - 1]] + names + [names[0]]), k, k))
            L.append('static_assert(has_same_dimension(C%d{}, %s{}), "c%d same-dimension");' % (k, names[0], k))
            # the other spellings of the same question
            L.append('static_assert(std::is_same<decltype(common_unit(%s)), C%d>::value, "c%d spelling-common-unit-fn");' % (", ".join(x + "{}" for x in names), k, k))
            L.append('static_assert(std::is_same<AssociatedUnitT<decltype(make_common(%s))>, C%d>::value, "c%d spelling-make-common-makers");' % (", ".join("QuantityMaker<%s>{}" % x for x in names), k, k))
            L.append('static_assert(std::is_same<AssociatedUnitT<decltype(make_common(%s))>, C%d>::value, "c%d spelling-make-common-symbols");' % (", ".join("SymbolFor<%s>{}" % x for x in names), k, k))
            if c["rational"]:
                for j in range(n):
                    stats["cofactors"] += 1
                    L.append('static_assert(unit_ratio(%s{}, C%d{}) == (%s), "c%d cofactor-%d");' % (names[j], k, mag_from_den(c["cof"][j]), k, j))
                    L.append('static_assert(is_integer(unit_ratio(%s{}, C%d{})), "c%d integer-cofactor-%d");' % (names[j], k, k, j))
                if c["equiv_input"]:
                    stats["is_input"] += 1
                    L.append('static_assert(%s, "c%d is-an-input");' % (" || ".join("std::is_same<C%d, %s>::value" % (k, names[j - 1]) for j in c["equiv_input"]), k))
            # nesting: every way of splitting the list into inner common units (also inner packs that share a member) is quantity-equivalent
            # to the flat common unit and still evenly divides every input
            nests = []
            if n >= 3:
                nests.append("CommonUnitT<%s, CommonUnitT<%s>>" % (names[0], ", ".join(names[1:])))
                nests.append("CommonUnitT<CommonUnitT<%s>, %s>" % (", ".join(names[:-1]), names[-1]))
                for a in range(3):
                    b, c2 = [x for x in range(3) if x != a]
                    rest = "".join(", " + names[x] for x in range(3, n))
                    nests.append("CommonUnitT<CommonUnitT<%s, %s>, CommonUnitT<%s, %s>%s>" % (names[a], names[b], names[a], names[c2], rest))
                    nests.append("CommonUnitT<CommonUnitT<%s, %s>, CommonUnitT<%s, %s>%s>" % (names[a], names[c2], names[a], names[b], rest))
            if n == 4:
                nests.append("CommonUnitT<CommonUnitT<%s, %s>, CommonUnitT<%s, %s>>" % (names[0], names[1], names[2], names[3]))
                nests.append("CommonUnitT<CommonUnitT<%s, %s, %s>, CommonUnitT<%s, %s>>" % (names[0], names[1], names[2], names[0], names[3]))
            for q, nt in enumerate(nests):
                stats["nesting"] += 1
                L.append('static_assert(are_units_quantity_equivalent(%s{}, C%d{}), "c%d nesting-%d");' % (nt, k, k, q))
                if c["rational"]:
                    L.append('static_assert(unit_ratio(%s{}, %s{}) == (%s), "c%d nesting-cofactor-%d");' % (names[0], nt, mag_from_den(c["cof"][0]), k, q))
            if n == 2:
                L.append('static_assert(std::is_same<typename std::common_type_t<Quantity<%s, int>, Quantity<%s, double>>::Unit, C%d>::value, "c%d quantity-common-type");' % (names[0], names[1], k, k))
                # same rep on both sides, both orders; the operators' result units
                L.append('static_assert(std::is_same<typename std::common_type_t<Quantity<%s, int>, Quantity<%s, int>>::Unit, C%d>::value, "c%d quantity-common-type-same-rep");' % (names[0], names[1], k, k))
                L.append('static_assert(std::is_same<std::common_type_t<Quantity<%s, float>, Quantity<%s, float>>, std::common_type_t<Quantity<%s, float>, Quantity<%s, float>>>::value, "c%d quantity-common-type-symmetric");' % (names[0], names[1], names[1], names[0], k))
                L.append('static_assert(std::is_same<decltype(Quantity<%s, double>{} + Quantity<%s, double>{}), decltype(Quantity<%s, double>{} + Quantity<%s, double>{})>::value, "c%d sum-type-symmetric");' % (names[0], names[1], names[1], names[0], k))
                L.append('static_assert(std::is_same<typename decltype(Quantity<%s, double>{} - Quantity<%s, double>{})::Unit, C%d>::value, "c%d difference-unit");' % (names[0], names[1], k, k))
        L.append("int main() {}")
        return "\n".join(L) + "\n"
    byi = {c["i"]: c for c in cases}
    chunks = [cases[k:k + 40] for k in range(0, len(cases), 40)]
    ncomp = [0]

    def compile_chunk(job):
        lst, cfg = job
        ncomp[0] += 1
        src = ctx.write("common_%s_%d.cc" % (cfg, ncomp[0]), tu(lst))
        rc, out = ctx.cxx(src, cfg=cfg, syntax_only=True, opt="-O0", flags=(["-ferror-limit=0"] if cfg.startswith("c") else ["-fmax-errors=0"]))
        if rc == 0:
            return []
        fails = re.findall(r'static.assert(?:ion)? failed[^\n"]*"?(c\d+ [a-z\-0-9]+)', out)
        errs = [l for l in out.splitlines() if "error" in l]
        hard = [l for l in errs if "static assertion failed" not in l and "static_assert failed" not in l]
        res = [("assert", f, cfg, "") for f in sorted(set(fails))]
        if hard:
            if len(lst) == 1 or ncomp[0] > 30 * len(chunks):
                res.append(("hard", "c%d rejected" % lst[0]["i"], cfg, "\n".join(hard[:4])))
            else:
                h = len(lst) // 2
                return compile_chunk((lst[:h], cfg)) + compile_chunk((lst[h:], cfg))
        return res
    fails = [f for lst in ctx.pmap(compile_chunk, [(ch, cfg) for ch in chunks for cfg in cfgs]) for f in lst]
    ctx.programs += ncomp[0]
    ctx.log("common-unit lists: %d cases, %d compiles, %d failures" % (len(cases), ncomp[0], len(fails)))
    for kind, what, cfg, diag in fails:
        m = re.match(r"c(\d+) (.*)", what)
        c = byi[int(m.group(1))]
        lst = ", ".join(expr_str(e) for e in c["es"])
        if kind == "hard" and not core.first_error_in_au(diag):
            raise core.ToolError("generated common-unit program does not compile (generator bug?): %s" % diag[:800])
        ctx.violation({"list": lst, "kind": re.sub(r"-\d+$", "", m.group(2))},
                      "CommonUnitT<%s>: %s [%s] %s" % (lst, m.group(2), cfg, diag[:200]), detail=c)
    # ---- Layer C: cofactor read-out
    ro = [c for c in cases if c["rational"]]
    ro = ro if ctx.tier == "thorough" else ro[::3]

    def ro_src(b):
        L = ['#include "unit_readout.hh"', PRELUDE % hdrs, MAGKEYS, "int main() {"]
        for c in b:
            ts = [sp.type(e) for e in c["es"]]
            cu = "CommonUnitT<%s>" % ", ".join(ts)
            parts = " + std::string(\",\") + ".join('std::string("[") + MagKeys<UnitRatioT<%s, %s>>::get() + "]"' % (t, cu) for t in ts)
            L.append('  std::printf("{\\"k\\":\\"cof\\",\\"i\\":%d,\\"ratios\\":[%%s]}\\n", (%s).c_str());' % (c["i"], parts))
        return "\n".join(L + ["  return 0;", "}"]) + "\n"
    recs, dropped, nprog = core.harness_farm(ctx, {"ro": ro}, ro_src, [cfgs[0]], [], batch=60, tag="cro", opt="-O0")
    if dropped:
        ctx.model_drift("cofactor read-out TU does not compile: %s" % dropped[0][2][:300])
    obs = [{"es": byi[r["i"]]["es"], "ratios": r["ratios"], "i": r["i"]} for r in recs if r.get("k") == "cof"]
    nval, bad = (0, [])
    if obs:
        nval, bad = ctx.tlc_batch_validate(ctx.path("Trace_Common.tla"), obs, name="common", shards=8)
    for b in bad:
        c = byi[b["rec"]["i"]]
        lst = ", ".join(expr_str(e) for e in c["es"])
        ctx.violation({"list": lst, "kind": "cofactor"}, "CommonUnitT<%s>: cofactors %s differ from the gcd's %s" % (lst, b["rec"]["ratios"], c["cof"]), detail=b)
    ctx.evaluations += len(cases) * len(cfgs) + len(obs)
    ctx.nontrivial = len([c for c in cases if len({expr_str(e) for e in c["es"]}) > 1])
    for c in cases[:1] + cases[len(cases) // 2:len(cases) // 2 + 2]:
        ctx.sample({"list": [expr_str(e) for e in c["es"]], "cofactors": c["cof"], "equiv_input": c["equiv_input"]})
    ctx.layers["B"] = dict(stats, lists=len(cases), configs=cfgs, compiles=ncomp[0])
    ctx.layers["C"] = {"cofactor_readouts_validated_by_TLC": nval}
    finish_layer_a()
