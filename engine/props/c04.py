from .. import convcheck


def run(ctx):
    convcheck.run(ctx, "C04")
