"""C06: the implicit-conversion safety surface is total and as documented."""
import json
import os

from .. import core
from ..convcheck import CXX_T
from ..core import wire_to_int

PRELUDE = r'''
#include "au/au.hh"
#include "au/units/meters.hh"
#include "au/units/seconds.hh"
#include <type_traits>
using namespace au;
template <class...> using auv_void_t = void;
template <class Q2> void auv_take(Q2);
template <class Q1, class Q2, class = void> struct auv_can_pass : std::false_type {};
template <class Q1, class Q2> struct auv_can_pass<Q1, Q2, auv_void_t<decltype(auv_take<Q2>(std::declval<Q1>()))>> : std::true_type {};
template <class A, class B, class = void> struct auv_has_common : std::false_type {};
template <class A, class B> struct auv_has_common<A, B, auv_void_t<std::common_type_t<A, B>>> : std::true_type {};
'''


def mag_expr(c):
    if c["kname"] == "pi":
        return "Magnitude<Pi>{}"
    if c["kname"] == "pow2_70":
        return "pow<70>(mag<2>())"
    if c["kname"].startswith("pow10_"):
        e = c["kname"][6:]
        return "pow<%s>(mag<10>())" % (("-" + e[1:]) if e.startswith("m") else e)
    e = "mag<%sULL>()" % c["N"]
    if c["D"] != "1":
        e += " / mag<%sULL>()" % c["D"]
    return e


def kid(c):
    return (c["kname"] if c["kname"] != "rat" else "%s_%s_%s" % (c["kname"], c["N"], c["D"])) + ("" if c.get("samedim", True) else "_xdim")


def trait_tu(cases):
    units, lines = {}, [PRELUDE]
    for c in cases:
        k = kid(c)
        if k not in units:
            units[k] = "KU%d" % len(units)
            lines.append("using %s = decltype(%s{} * (%s));" % (units[k], "Meters" if c.get("samedim", True) else "Seconds", mag_expr(c)))
    for i, c in enumerate(cases):
        q1 = "Quantity<%s, %s>" % (units[kid(c)], CXX_T[c["R1"]])
        q2 = "Quantity<Meters, %s>" % CXX_T[c["R2"]]
        ok = "true" if c["ok"] else "false"
        tag = "%s->%s %s" % (c["R1"], c["R2"], kid(c))
        lines.append('static_assert(std::is_convertible<%s, %s>::value == %s, "A is_convertible %s");' % (q1, q2, ok, tag))
        lines.append('static_assert(std::is_constructible<%s, %s>::value == %s, "B is_constructible %s");' % (q2, q1, ok, tag))
        lines.append('static_assert(auv_can_pass<%s, %s>::value == %s, "C overload %s");' % (q1, q2, ok, tag))
        lines.append('static_assert(%sauv_has_common<%s, %s>::value, "D common_type %s");' % ("" if c.get("samedim", True) else "!", q1, q2, tag))
    lines.append("int main() {}")
    return "\n".join(lines) + "\n"


def callsite_tu(c, form):
    """unit-only .as(u)/.in(u) (rep stays R1) and mixed ==, + ; single-case TU"""
    q1 = "Quantity<KU, %s>" % CXX_T[c["R1"]]
    q2 = "Quantity<Meters, %s>" % CXX_T[c["R2"]]
    body = {"as": "auto r = a.as(meters); (void)r;", "in": "auto r = a.in(meters); (void)r;",
            "eq": "bool r = (a == b); (void)r;", "add": "auto r = a + b; (void)r;"}[form]
    return PRELUDE + "using KU = decltype(Meters{} * (%s));\nvoid f(%s a, %s b) { %s }\nint main() {}\n" % (mag_expr(c), q1, q2, body)


def run(ctx):
    ctx.rule = ("Layer A: every (R1, R2, k) question on the scaled machine through the modelled trait chain (totality, equality with the "
                "documented predicate, no-overflow-below-threshold lemma).  Layer B: TLC emits every rep pair x k-grid case with the "
                "predicate's verdict (BigInt); each becomes is_convertible / is_constructible / overload-resolution / common_type "
                "queries (bisected to the single case on a hard error) and call-site probes (.as/.in/==/+; rejects paired with "
                "compiling twins).  Layer C: every permitted integral case converts all x in [-2147, 2147]; values judged by TLC.  "
                "Non-trivial = cases with k on or next to a rep's 2147-threshold or maximum, or not representable.")
    ctx.assumptions += ["LP64", "g++ 12 / clang++ 14 accept/reject verdicts as the observable", "TLC + BigInt"]
    a = ctx.tlc("ConversionPolicy.tla", cfg="MC_ConversionPolicy.cfg", timeout=900, name="layerA policy", coverage=True, allow_violation=True)
    if a.violated:
        raise core.ToolError("Layer A: invariant %s of ConversionPolicy.tla fails\n%s" % (a.violated, "\n".join(a.out.splitlines()[-25:])))
    ctx.layers["A"] = {"module": "ConversionPolicy.tla", "distinct": a.distinct, "exhaustive": True,
                       "actions": {k: v[0] for k, v in a.coverage.items()}}
    g = ctx.tlc("Gen_Policy.tla", env={"TIER": ctx.tier}, timeout=900, name="gen policy cases")
    if not g.ok or len(g.cases) != g.distinct or not g.cases:
        raise core.ToolError("Gen_Policy failed\n" + g.out[-1500:])
    cases = g.cases
    cfgs = core.QUICK_CONFIGS if ctx.tier == "quick" else core.ALL_CONFIGS
    ctx.log("cases: %d; configs %s" % (len(cases), cfgs))
    # ---- trait queries: one TU per k (all rep pairs), bisect on failure
    byk = {}
    for c in cases:
        byk.setdefault(kid(c), []).append(c)
    ncomp = [0]

    def compile_cases(job):
        lst, cfg = job
        ncomp[0] += 1
        src = ctx.write("trait_%s_%d.cc" % (cfg, ncomp[0]), trait_tu(lst))
        rc, out = ctx.cxx(src, cfg=cfg, syntax_only=True, opt="-O0")
        if rc == 0:
            return []
        if len(lst) == 1:
            first = [l for l in out.splitlines() if "error" in l][:3]
            return [(lst[0], cfg, first)]
        # which assertion failed? a plain static_assert failure names the case; a hard error does not -> bisect
        h = len(lst) // 2
        return compile_cases((lst[:h], cfg)) + compile_cases((lst[h:], cfg))
    jobs = [(lst, cfg) for lst in byk.values() for cfg in cfgs]
    fails = [f for lst in ctx.pmap(compile_cases, jobs) for f in lst]
    ctx.programs += ncomp[0]
    ctx.evaluations += len(cases) * len(cfgs) * 4
    for c, cfg, first in fails:
        msg = " | ".join(first)
        wrong_answer = "static assertion failed" in msg or "static_assert failed" in msg
        wrong_answer = wrong_answer and any(t in msg for t in ("A is_convertible", "B is_constructible", "C overload", "D common_type"))
        if not wrong_answer and not core.first_error_in_au(first):
            raise core.ToolError("generated trait program does not compile (generator bug?): %s" % msg[:600])
        key = {"R1": c["R1"], "R2": c["R2"], "k": kid(c), "kind": "answer" if wrong_answer else "ill-formed"}
        ctx.violation(key, ("trait answers differently from the documented predicate (expected %s)" % c["ok"]) if wrong_answer
                      else "asking is_convertible/is_constructible/common_type makes the program ill-formed" + " [%s] %s" % (cfg, msg[:300]),
                      detail={"case": c, "cfg": cfg, "diag": first})
    ctx.log("trait queries done: %d compiles, %d failing cases" % (ncomp[0], len(fails)))
    # ---- call-site probes
    xdim = [c for c in cases if not c.get("samedim", True)]
    cases = [c for c in cases if c.get("samedim", True)]
    same = [c for c in cases if c["R1"] == c["R2"] and c["R1"] in ("i16", "i32", "u32", "i64", "u64", "f64")]
    if ctx.tier == "quick":
        same = [c for c in same if c["R1"] in ("i32", "u64", "f64")]
    probes = []
    for c in same:
        for form in ("as", "in"):
            probes.append((c, form, c["ok"]))
    mixed = [c for c in cases if (c["R1"], c["R2"]) in (("i32", "i32"), ("i64", "i32"), ("u16", "u32"), ("i32", "f64"), ("i16", "i64"))]
    if ctx.tier == "quick":
        mixed = [c for c in mixed if (c["R1"], c["R2"]) in (("i32", "i32"), ("u16", "u32"))]
    for c in mixed:
        if c["kname"] == "pi":
            continue    # irrational ratio: common unit exists but the documented predicate does not cover it
        for form in ("eq", "add"):
            probes.append((c, form, c["mixed"]))
    pcfgs = cfgs[:2]

    def probe(p):
        c, form, expect = p
        outv = []
        for cfg in pcfgs:
            src = ctx.write("probe_%s_%s_%s_%s_%s.cc" % (cfg, form, c["R1"], c["R2"], kid(c)), callsite_tu(c, form))
            rc, out = ctx.cxx(src, cfg=cfg, syntax_only=True, opt="-O0")
            outv.append((cfg, rc == 0, [l for l in out.splitlines() if "error" in l][:2]))
        return p, outv
    res = ctx.pmap(probe, probes)
    ctx.programs += len(probes) * len(pcfgs)
    ctx.evaluations += len(probes) * len(pcfgs)
    nrej = 0
    for (c, form, expect), outv in res:
        for cfg, compiled, diag in outv:
            if not expect:
                nrej += 1
            if compiled != expect:
                ctx.violation({"R1": c["R1"], "R2": c["R2"], "k": kid(c), "site": form},
                              "call site .%s/%s: compiles=%s but the predicate says %s [%s] %s" % (form, form, compiled, expect, cfg, " | ".join(diag)[:300]),
                              detail={"case": c, "cfg": cfg, "diag": diag})
    ctx.log("call-site probes done: %d (%d expected rejects; every reject has compiling twins among the same forms)" % (len(probes), nrej))
    # ---- values of permitted integral conversions
    perm = [c for c in cases if c["ok"] and c["R1"] in CXX_T and c["R2"] in CXX_T and c["R1"][0] != "f" and c["R2"][0] != "f" and c["kname"] == "rat" and c["D"] == "1"]

    def make_src(b):
        lines = ['#include "policy_values.hh"', "int main() {"]
        for c in b:
            lines.append("  auv::implicit_values<%s, %s, %sULL>();" % (CXX_T[c["R1"]], CXX_T[c["R2"]], c["N"]))
        return "\n".join(lines + ["  return 0;", "}"]) + "\n"
    groups = {}
    for c in perm:
        groups.setdefault(c["R2"], []).append(c)
    recs, dropped, nprog = core.harness_farm(ctx, groups, make_src, ["c20", "g14"], [], batch=40, tag="polval")
    for d in dropped:
        ctx.violation({"R1": d[0]["R1"], "R2": d[0]["R2"], "k": kid(d[0]), "kind": "implicit-construction"},
                      "permitted implicit construction does not compile [%s] %s" % (d[1], d[2][:300]), detail=d[2])
    obs = [r for r in recs if r["k"] == "pv"]
    sums = [r for r in recs if r["k"] == "pvsum"]
    ctx.evaluations += sum(s["n"] for s in sums)
    nval, bad = ctx.tlc_batch_validate("Trace_Policy.tla", obs, name="policy")
    for b in bad:
        r = b["rec"]
        ctx.violation({"R1": r["R1"], "R2": r["R2"], "k": "rat_%d_1" % wire_to_int(r["N"]), "x": str(wire_to_int(r["x"]))},
                      "permitted implicit conversion %s->%s x=%d k=%d gives %d (ub=%d)" % (
                          r["R1"], r["R2"], wire_to_int(r["x"]), wire_to_int(r["N"]), wire_to_int(r["res"]), r["ub"]), detail=b)
    nt = [c for c in cases if c["kname"] != "rat" or c["D"] == "1" and c["N"] not in ("1", "2", "1000", "3072")]
    ctx.nontrivial = len(nt)
    for c in cases[:1] + [x for x in cases if x["ok"] and x["R2"] == "i32" and x["N"] == "1000225"][:1] + [x for x in cases if not x["ok"] and x["N"] == "1000226" and x["R2"] == "i32"][:1]:
        ctx.sample(c)
    ctx.layers["B"] = {"cases": len(cases), "trait_queries": len(cases) * 4, "configs": cfgs, "compiles": ncomp[0],
                       "callsite_probes": len(probes), "expected_rejects": nrej}
    ctx.layers["C"] = {"permitted_integral_cases": len(perm), "values_converted": sum(s["n"] for s in sums), "records_validated_by_TLC": nval}
    ctx.exhaustive = False
    from .. import walks
    walks.run(ctx, {"As"}, "implicit conversions inside chains of operations", seed_offset=6)
