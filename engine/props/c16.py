"""C16: constants convert exactly or not at all."""
import os
import random
import re

from .. import core, unitcat
from ..convcheck import CXX_T
from ..core import wire_to_int, fval
from ..unitexpr import Speller
from .c11 import mag_cpp, mag_str

CONST_DIR = os.path.join(core.REPO, "au", "code", "au", "constants")


def discover_constants():
    out = []
    for f in sorted(os.listdir(CONST_DIR)):
        if not f.endswith(".hh") or f.endswith("_fwd.hh"):
            continue
        src = open(os.path.join(CONST_DIR, f)).read()
        for m in re.finditer(r"constexpr auto (\w+) = make_constant\(", src):
            out.append({"name": m.group(1), "header": "au/constants/" + f})
    return out


def run(ctx):
    ctx.rule = ("For every library constant x {its coherent SI unit, that unit x 1000, / 1000, / 3} and for ~125 generated constants make_constant(meters x m) "
                "with m from the TLC-emitted magnitude grid of C11 (integers and powers straddling every type limit, 64-bit primes, rationals, roots, pi): "
                "the exact ratio C/u is read out as a prime-power pack, can_store_value_in<T>, C.in<T>(u), C.as<T>(u) and the implicit conversion to "
                "Quantity<u,T> are evaluated for all 11 types, and TLC decides availability <=> representable and value exactness (BigInt, pi "
                "enclosure); unavailable combinations are compiled as probes that must fail; number/quantity x constant products and quotients "
                "must keep the stored number bit-for-bit and have the product/quotient unit.  Non-trivial = (constant, unit, type) triples.")
    ctx.assumptions += ["'available' means the use compiles (the conversion operator template is unconstrained by design)", "same tolerance as C11 for floating types"]
    consts = discover_constants()
    cat, pre = unitcat.extract(ctx)
    sp = Speller(cat)
    g = ctx.tlc("Gen_Mag.tla", env={"TIER": ctx.tier}, timeout=900, name="magnitude grid")
    if not g.ok or not g.cases:
        raise core.ToolError("Gen_Mag failed\n" + g.out[-1500:])
    hdrs = "\n".join('#include "%s"' % c["header"] for c in consts) + "\n" + "\n".join('#include "%s"' % h for h in sp.headers())
    # 1. dimensions of the library constants -> coherent reference unit
    src = ctx.write("cdesc.cc", '#include "unit_readout.hh"\n%s\nusing namespace au;\nint main() {\n%s\n}\n' % (
        hdrs, "\n".join('  std::printf("%%s\\n", auv::unit_json<AssociatedUnitT<std::remove_cv_t<decltype(%s)>>>("%s").c_str());' % (c["name"], c["name"]) for c in consts)))
    exe = ctx.path("cdesc")
    rc, out = ctx.cxx(src, exe, cfg="g14", opt="-O0", flags=[core.HARNESS + "/noub.cc"])
    if rc != 0:
        raise core.ToolError("constant descriptors do not compile:\n" + out[-2000:])
    desc = {r["id"]: r for r in ctx.run_ndjson(exe)}
    insts = []
    for c in consts:
        ref = sp.reference(desc[c["name"]]["dim"], [])
        if ref is None:
            continue
        for k, scale in enumerate(["", " * mag<1000>()", " / mag<1000>()", " / mag<3>()", " * pow<20>(mag<10>())", " / pow<40>(mag<10>())"][: (4 if ctx.tier == "quick" else 6)]):
            insts.append({"id": "%s_%d" % (c["name"], k), "c": c["name"], "u": "(%s%s)" % (ref, scale)})
    for i, m in enumerate(g.cases):
        insts.append({"id": "gen%d" % i, "c": "make_constant(Meters{} * (%s))" % mag_cpp(m["mag"]), "u": "meters", "mag": m["mag"]})

    def make_src(b):
        L = ['#include "constant_readout.hh"', hdrs, "using namespace au;", "int main() {"]
        for x in b:
            L.append('  auv::const_all("%s", %s, %s);' % (x["id"], x["c"], x["u"]))
        return "\n".join(L + ["  return 0;", "}"]) + "\n"
    cfgs = ["g14", "c20"] if ctx.tier == "quick" else ["g14", "c20", "g20", "c14"]
    recs, dropped, nprog = core.harness_farm(ctx, {"c": insts}, make_src, cfgs, [], batch=5, tag="const", opt="-O0")
    byid = {x["id"]: x for x in insts}
    for d in dropped:
        if "constexpr" in d[2] and "limit" in d[2]:
            ctx.notes.append("constexpr step limit: %s dropped" % d[0]["id"])
            continue
        if not core.first_error_in_au(d[2]):
            raise core.ToolError("constant harness does not compile (generator bug?): %s" % d[2][:800])
        ctx.violation({"constant": d[0]["c"], "unit": d[0]["u"], "kind": "ill-formed"}, "asking can_store_value_in / converting %s to %s makes the program ill-formed [%s]: %s" % (d[0]["c"], d[0]["u"], d[1], d[2][:300]), detail=d[2])
    obs = [r for r in recs if r["k"] == "mag"]
    for r in obs:
        if r["rep"] == 1 and not r["forms_same"]:
            ctx.violation({"constant": byid[r["id"]]["c"], "unit": byid[r["id"]]["u"], "T": r["T"], "kind": "forms"}, "C.in<T>, C.as<T> and the implicit conversion disagree for %s in %s as %s [%s]" % (byid[r["id"]]["c"], byid[r["id"]]["u"], r["T"], r["cfg"]), detail=r)
    nval, bad = ctx.tlc_batch_validate("Trace_Mag.tla", obs, name="const", shards=core.NCPU, timeout=1500)
    for b in bad:
        r, v = b["rec"], b["v"]
        val = fval(r["fval"]) if r["T"][0] == "f" else wire_to_int(r["ival"])
        ctx.violation({"constant": byid[r["id"]]["c"], "unit": byid[r["id"]]["u"], "T": r["T"]},
                      "constant %s in %s as %s: can_store_value_in = %d, value = %s; exact ratio %s is in zone '%s' [%s]" % (
                          byid[r["id"]]["c"], byid[r["id"]]["u"], r["T"], r["rep"], val, mag_str(r["mag"]), v["why"], r["cfg"]), detail=b)
    # 2. unavailable => the use does not compile
    rnd = random.Random(ctx.seed)
    un = [r for r in obs if r["rep"] == 0 and r["cfg"] == cfgs[0]]
    rnd.shuffle(un)
    un = un[: (45 if ctx.tier == "quick" else 400)]
    pchs = {cfg: ctx.pch(cfg, "c16", '#include "au/au.hh"\n%s\nusing namespace au;\n' % hdrs) for cfg in cfgs[:1]}
    forms = [("in", "auto r = C.in<T>(U);"), ("as", "auto r = C.as<T>(U);"), ("implicit", "Quantity<AssociatedUnitT<std::remove_cv_t<decltype(U)>>, T> r = C;")]

    def probe(p):
        r, (fname, stmt) = p
        x = byid[r["id"]]
        body = "constexpr auto C = %s; constexpr auto U = %s; using T = %s;\nvoid f() { %s }\nint main() {}\n" % (x["c"], x["u"], CXX_T[r["T"]], stmt)
        s = ctx.write("cp_%s_%s_%s.cc" % (r["id"], r["T"], fname), body)
        rc, o = ctx.cxx(s, cfg=cfgs[0], syntax_only=True, opt="-O0", flags=pchs[cfgs[0]])
        return p, rc, o
    res = ctx.pmap(probe, [(r, f) for r in un for f in forms])
    ctx.programs += len(res)
    for (r, (fname, stmt)), rc, o in res:
        if rc == 0:
            x = byid[r["id"]]
            ctx.violation({"constant": x["c"], "unit": x["u"], "T": r["T"], "kind": "compiles-" + fname},
                          "constant %s %s to %s as %s compiles although can_store_value_in is false / the ratio is not representable" % (x["c"], fname, x["u"], r["T"]), detail=stmt)
    # 3. mixins keep the stored number
    L = ['#include "constant_readout.hh"', hdrs, "using namespace au;", "int main() {", "  long long bad = 0, n = 0;"]
    for c in consts:
        for v in ("3", "-7", "int8_t{100}", "uint64_t{18446744073709551615ULL}", "2.5", "-0.0", "1e300", "3.5f", "123456789012345678LL", "3.0f", "0.1f", "7.0L"):
            L.append("  bad += auv::mixin_number(%s, %s); ++n;" % (c["name"], v))
        for q in ("meters(3)", "seconds(2.5)", "(meters / second)(int16_t{-7})", "kilo(hertz)(1e-30)", "unos(7u)", "meters(3.0f)", "seconds(-0.3f)", "hertz(7.0L)", "(meters / second)(1e-3f)"):
            L.append("  bad += auv::mixin_quantity(%s, %s); ++n;" % (c["name"], q))
        L.append("  { auto c2 = %s * %s; auto c3 = %s / mag<7>(); auto m = %s * meters; bad += !are_units_quantity_equivalent(AssociatedUnitT<decltype(c2)>{}, pow<2>(AssociatedUnitT<std::remove_cv_t<decltype(%s)>>{}));"
                 " bad += !bits_eq(m(5).in(m.unit), 5); bad += !bits_eq((3.0 * c3).in(AssociatedUnitT<decltype(c3)>{}), 3.0); n += 3; }" % (c["name"], c["name"], c["name"], c["name"], c["name"]))
    L += ['  std::printf("{\\"k\\":\\"mixin\\",\\"n\\":%lld,\\"bad\\":%lld}\\n", n, bad);', "  return 0;", "}"]
    src = ctx.write("mixin.cc", "\n".join(L).replace("bits_eq(", "auv::bits_eq(") + "\n")
    for cfg in cfgs[:2]:
        exe = ctx.path("mixin_" + cfg)
        rc, out = ctx.cxx(src, exe, cfg=cfg, opt="-O1", flags=[core.HARNESS + "/noub.cc"])
        if rc != 0:
            errs = "\n".join([l for l in out.splitlines() if "error" in l][:4])
            if core.first_error_in_au(errs):
                ctx.violation({"kind": "mixin rejected"}, "products/quotients with constants do not compile [%s]: %s" % (cfg, errs[:400]), detail=errs)
                continue
            raise core.ToolError("mixin program does not compile: " + errs)
        for r in ctx.run_ndjson(exe):
            ctx.evaluations += r["n"]
            if r["bad"]:
                ctx.violation({"kind": "mixin", "cfg": cfg}, "%d of %d products/quotients with a constant changed the stored number or produced the wrong unit [%s]" % (r["bad"], r["n"], cfg), detail=r)
    ctx.evaluations += len(obs)
    ctx.nontrivial = len([o for o in obs if o["cfg"] == cfgs[0]])
    for o in obs[:2] + obs[len(obs) // 2: len(obs) // 2 + 2]:
        ctx.sample({"constant": byid[o["id"]]["c"], "unit": byid[o["id"]]["u"], "T": o["T"], "available": o["rep"], "ratio": mag_str(o["mag"]), "value": fval(o["fval"]) if o["T"][0] == "f" else wire_to_int(o["ival"])})
    ctx.layers["BC"] = {"library_constants": [c["name"] for c in consts], "instances": len(insts), "records_validated_by_TLC": nval, "unavailable_probes": len(res), "configs": cfgs}
