"""Engine core for the Au verification framework.

Moves data between TLC, the compilers and the harness binaries.  Computes no expected values:
every verdict that can raise an alarm is derived by TLC from the TLA+ specification in /verif/spec.
"""
import atexit
import concurrent.futures as cf
import json
import os
import re
import shutil
import subprocess
import sys
import tempfile
import time

VERIF = os.path.dirname(os.path.dirname(os.path.abspath(__file__)))
REPO = os.environ.get("AU_REPO", "/repo")
SPEC = os.path.join(VERIF, "spec")
HARNESS = os.path.join(VERIF, "harness")
TLA_JARS = "/opt/veriftools/tla/tla2tools.jar:/opt/veriftools/tla/CommunityModules-deps.jar"
NCPU = os.cpu_count() or 4

CONFIGS = {  # configuration id -> (compiler, standard)
    "g14": ("g++", "c++14"), "g17": ("g++", "c++17"), "g20": ("g++", "c++20"),
    "c14": ("clang++", "c++14"), "c17": ("clang++", "c++17"), "c20": ("clang++", "c++20"),
}
QUICK_CONFIGS = ["g14", "c20"]
ALL_CONFIGS = ["g14", "g17", "g20", "c14", "c17", "c20"]

UBSAN_FLAGS = ["-fsanitize=undefined,float-cast-overflow,unsigned-integer-overflow,float-divide-by-zero",
               "-fsanitize-minimal-runtime", "-fsanitize-recover=all",
               "-fno-sanitize=vptr,function"]


class LibraryRejects(Exception):
    """a program that only uses the public API is rejected (compile or link) with the failure located in Au itself"""


class ToolError(Exception):
    """A tool (TLC, compiler, harness) failed in a way that is not a verdict."""


def sh(cmd, timeout=600, cwd=None, env=None, input=None):
    """Run a command.  coreutils `timeout` is the primary enforcer, so that a child cannot outlive its limit even if this
    process is killed; the subprocess timeout is only a backstop."""
    e = dict(os.environ)
    if env:
        e.update(env)
    t0 = time.time()
    try:
        p = subprocess.run(["timeout", "-k", "10", str(int(timeout))] + list(cmd), cwd=cwd, env=e, input=input, stdout=subprocess.PIPE,
                           stderr=subprocess.STDOUT, timeout=timeout + 90, text=True, errors="replace")
        if p.returncode in (124, 137) and time.time() - t0 >= timeout - 1:
            return 124, (p.stdout or "") + "\n[TIMEOUT]"
        return p.returncode, p.stdout
    except subprocess.TimeoutExpired as ex:
        out = ex.stdout or ""
        if isinstance(out, bytes):
            out = out.decode(errors="replace")
        return 124, out + "\n[TIMEOUT]"


_CASE_RE = re.compile(r'^<<\s*"([A-Z_]+)",\s*"(.*)"\s*>>$')


def _unescape(s):
    # TLC prints strings with \" and \\ escapes
    return json.loads('"' + s + '"') if '\\' in s else s


class TLCResult:
    def __init__(self, rc, out):
        self.rc = rc
        self.out = out
        self.generated = 0
        self.distinct = 0
        self.tagged = {}
        self.violated = None
        self.error = None
        self.coverage = {}
        m = None
        for m in re.finditer(r'(\d+) states generated, (\d+) distinct states found', out):
            pass
        if m:
            self.generated, self.distinct = int(m.group(1)), int(m.group(2))
        pend = None
        for line in out.splitlines():
            s = line.strip()
            if pend is not None:
                pend += " " + s
                if s.endswith(">>"):
                    s, pend = pend, None
                else:
                    continue
            elif s.startswith("<<") and not s.endswith(">>"):
                pend = s
                continue
            mm = _CASE_RE.match(s)
            if mm:
                try:
                    self.tagged.setdefault(mm.group(1), []).append(json.loads(_unescape(mm.group(2))))
                except Exception:
                    self.tagged.setdefault(mm.group(1) + "_RAW", []).append(mm.group(2))
        mv = re.search(r'Invariant (\S+) is violated', out)
        if mv:
            self.violated = mv.group(1)
        mv = re.search(r'Action property (\S+) is violated', out)
        if mv:
            self.violated = mv.group(1)
        if re.search(r'Temporal properties were violated', out):
            self.violated = self.violated or "temporal"
        if "Assumption" in out and "is false" in out:
            self.violated = self.violated or "ASSUME"
        if rc not in (0, 12, 13) or "Error:" in out and not self.violated:
            if rc != 0:
                self.error = "rc=%d" % rc
        # coverage: lines like "<Next line 10, col 1 to line 10, col 20 of module M>: 12:34"
        for cm in re.finditer(r'^<(\w+) line \d+, col \d+ to line \d+, col \d+ of module (\w+)>: (\d+):(\d+)', out, re.M):
            self.coverage[cm.group(1)] = (int(cm.group(3)), int(cm.group(4)))

    @property
    def cases(self):
        return self.tagged.get("CASE", [])

    @property
    def ok(self):
        return self.rc == 0 and not self.violated


class Ctx:
    def __init__(self, prop, tier, seed, replay_key=None):
        self.prop = prop
        self.tier = tier
        self.seed = seed
        self.t0 = time.time()
        self.scratch = tempfile.mkdtemp(prefix="auverif_%s_" % prop, dir=os.environ.get("AU_VERIF_TMP", "/tmp"))
        atexit.register(self._cleanup)
        self.states = 0
        self.transitions = 0
        self.traces = 0
        self.evaluations = 0
        self.nontrivial = 0
        self.programs = 0
        self.samples = []
        self.violations = []      # unknown violations
        self.known_hits = []
        self.drift = []
        self.notes = []
        self.layers = {}          # free-form per-layer coverage details
        self.assumptions = []
        self.exhaustive = False
        self.rule = ""
        self.tlc_runs = []
        self.replay_key = replay_key
        self._n_tlc = 0
        self._kf = None

    # ------------------------------------------------------------------ utilities
    def _cleanup(self):
        if os.environ.get("AU_VERIF_KEEP"):
            sys.stderr.write("scratch kept: %s\n" % self.scratch)
            return
        shutil.rmtree(self.scratch, ignore_errors=True)

    def log(self, *a):
        print("[%s %6.1fs]" % (self.prop, time.time() - self.t0), *a, flush=True)

    def path(self, *a):
        p = os.path.join(self.scratch, *a)
        os.makedirs(os.path.dirname(p), exist_ok=True)
        return p

    def write(self, rel, text):
        p = self.path(rel)
        with open(p, "w") as f:
            f.write(text)
        return p

    def sample(self, obj, limit=6):
        if len(self.samples) < limit:
            self.samples.append(obj)

    # ------------------------------------------------------------------ TLC
    def tlc(self, module, cfg=None, env=None, workers=None, timeout=600, simulate=None, depth=None,
            coverage=False, extra=None, xmx="6g", name=None, count=True, deadlock=False, allow_violation=False):
        """Run TLC on `module` (path to .tla; relative names are looked up in /verif/spec).
        Returns TLCResult.  Tool failures are retried twice and then raise ToolError."""
        if not os.path.isabs(module):
            module = os.path.join(SPEC, module)
        if cfg is None:
            cfg = module[:-4] + ".cfg"
        elif not os.path.isabs(cfg):
            cfg = os.path.join(SPEC, cfg)
        last = None
        for attempt in range(3):
            self._n_tlc += 1
            meta = self.path("tlc_meta_%d" % self._n_tlc, "x")
            meta = os.path.dirname(meta)
            cmd = ["java", "-Xss256m", "-Xmx" + xmx, "-XX:+UseParallelGC", "-DTLA-Library=" + SPEC,
                   "-cp", TLA_JARS, "tlc2.TLC", "-metadir", meta, "-config", cfg,
                   "-workers", str(workers or "auto"), "-noGenerateSpecTE"]
            if not deadlock:
                cmd += ["-deadlock"]
            if simulate:
                cmd += ["-simulate", "num=%d" % simulate]
                if depth:
                    cmd += ["-depth", str(depth)]
            cmd += ["-seed", str(self.seed)]
            if coverage:
                cmd += ["-coverage", "1"]
            if extra:
                cmd += extra
            cmd += [module]
            t = time.time()
            rc, out = sh(cmd, timeout=timeout, cwd=os.path.dirname(module), env=env)
            dt = time.time() - t
            shutil.rmtree(meta, ignore_errors=True)
            res = TLCResult(rc, out)
            last = res
            bad_tool = (rc == 124) or ("Parsing or semantic analysis failed" in out) or \
                       ("StackOverflowError" in out) or ("OutOfMemoryError" in out) or \
                       (rc != 0 and not res.violated)
            if not bad_tool:
                if res.violated and not allow_violation:
                    pass
                if count:
                    self.states += res.distinct
                    self.transitions += res.generated
                if count:
                    self.tlc_runs.append({"module": os.path.basename(module), "cfg": os.path.basename(cfg),
                                          "generated": res.generated, "distinct": res.distinct,
                                          "wall_s": round(dt, 1), "name": name or ""})
                return res
            if "Parsing or semantic analysis failed" in out:
                break
            self.log("TLC tool failure (attempt %d, rc=%d) on %s; retrying" % (attempt + 1, rc, os.path.basename(module)))
        ol = last.out.splitlines()
        ei = next((k for k, l in enumerate(ol) if l.startswith("Error:") or "*** Errors" in l or "***Parse Error***" in l), None)
        tail = "\n".join(ol[ei:ei + 25] if ei is not None else ol[-40:])
        raise ToolError("TLC failed on %s:\n%s" % (module, tail))

    def tlc_batch_validate(self, trace_module, records, shards=None, timeout=900, name=None, env_extra=None):
        """Batch validation (DESIGN 5.6): shard `records` (list of dicts) into NDJSON files, run
        `trace_module` on each shard with TRACE=<file>; the module prints <<"VALIDATED", json>> and
        <<"BADREC", json>> lines.  Returns (n_validated, bad_records)."""
        if not records:
            return 0, []
        shards = shards or min(NCPU, max(1, len(records) // 400))
        files = []
        for i in range(shards):
            part = records[i::shards]
            if not part:
                continue
            p = self.path("batch_%s_%d.ndjson" % (name or "b", i))
            with open(p, "w") as f:
                for r in part:
                    f.write(json.dumps(r, separators=(",", ":")) + "\n")
            files.append((p, len(part)))

        def one(fp):
            e = {"TRACE": fp[0]}
            if env_extra:
                e.update(env_extra)
            return self.tlc(trace_module, env=e, workers=1, timeout=timeout, xmx="3g", name=name, count=False)
        nval, bad = 0, []
        with cf.ThreadPoolExecutor(max_workers=min(NCPU, len(files))) as ex:
            for (fp, res) in zip(files, ex.map(one, files)):
                v = res.tagged.get("VALIDATED", [])
                got = sum(x.get("n", 0) for x in v)
                if got != fp[1]:
                    raise ToolError("batch validation of %s: validated %d of %d records\n%s" % (
                        fp[0], got, fp[1], "\n".join(res.out.splitlines()[-30:])))
                nval += got
                bad += res.tagged.get("BADREC", [])
        self.traces += nval
        return nval, bad

    # ------------------------------------------------------------------ compilers
    def cxx_cmd(self, src, out=None, cfg="g14", opt="-O1", flags=None, syntax_only=False, compile_only=False,
                defines=None, includes=None, warn=False):
        comp, std = CONFIGS[cfg]
        cmd = [comp, "-std=" + std, opt, "-I" + os.path.join(REPO, "au", "code"), "-I" + HARNESS]
        for i in includes or []:
            cmd.append("-I" + i)
        # NB: never pass -w: with g++ it also silences the narrowing *errors* the standard requires (they are "permerrors"), which would
        # change accept/reject verdicts.  Warnings are simply ignored by the engine (only "error" lines are read).
        for d in defines or []:
            cmd.append("-D" + d)
        cmd += flags or []
        if syntax_only:
            cmd += ["-fsyntax-only", src]
        elif compile_only:
            cmd += ["-c", src, "-o", out]
        else:
            cmd += [src, "-o", out]
        return cmd

    def cxx(self, src, out=None, timeout=900, **kw):
        rc, o = sh(self.cxx_cmd(src, out, **kw), timeout=timeout)
        if rc == 124:
            raise ToolError("compiler timeout on %s" % src)
        return rc, o

    def cxx_ubsan(self, src, out, cfg="c20", opt="-O1", flags=None, defines=None, timeout=900):
        """clang build with the UBSan minimal runtime replaced by the harness's flag-setting handlers."""
        obj = out + ".o"
        rc, o = self.cxx(src, obj, cfg=cfg, opt=opt, flags=(flags or []) + UBSAN_FLAGS, compile_only=True,
                         defines=defines, timeout=timeout)
        if rc != 0:
            return rc, o
        hobj = self.path("ubhandlers.o")
        if not os.path.exists(hobj):
            rc2, o2 = sh(["clang++", "-O1", "-c", os.path.join(HARNESS, "ubhandlers.cc"), "-o", hobj])
            if rc2 != 0:
                raise ToolError("cannot build ubhandlers: " + o2)
        rc, o = sh(["clang++", obj, hobj, "-o", out], timeout=timeout)
        return rc, o

    def pch(self, cfg, name, text, opt="-O0"):
        """Precompile `text` (a prelude of includes) for configuration `cfg`.  Returns the flags that make a TU start with it.
        Falls back to a plain -include if the precompiled header cannot be built."""
        d = os.path.dirname(self.path("pch_%s_%s" % (name, cfg), "x"))
        h = os.path.join(d, "pre.hh")
        with open(h, "w") as f:
            f.write(text)
        comp, std = CONFIGS[cfg]
        base = [comp, "-std=" + std, opt, "-I" + os.path.join(REPO, "au", "code"), "-I" + HARNESS]
        if comp == "g++":
            rc, out = sh(base + ["-x", "c++-header", h, "-o", h + ".gch"], timeout=600)
            return ["-include", h] if rc == 0 else ["-include", h]
        rc, out = sh(base + ["-x", "c++-header", h, "-o", h + ".pch"], timeout=600)
        return ["-include-pch", h + ".pch"] if rc == 0 else ["-include", h]

    def pmap(self, fn, items, workers=None):
        with cf.ThreadPoolExecutor(max_workers=workers or NCPU) as ex:
            return list(ex.map(fn, items))

    def run_bin(self, binary, args=None, timeout=900, env=None):
        rc, out = sh([binary] + (args or []), timeout=timeout, env=env)
        if rc != 0:
            raise ToolError("harness %s failed rc=%d:\n%s" % (binary, rc, out[-2000:]))
        return out

    def run_ndjson(self, binary, args=None, timeout=900):
        out = self.run_bin(binary, args, timeout)
        recs = []
        for line in out.splitlines():
            if line.startswith("{"):
                try:
                    recs.append(json.loads(line))
                except ValueError:
                    raise ToolError("harness %s printed a malformed record: %s" % (os.path.basename(binary), line[:600]))
        return recs

    # ------------------------------------------------------------------ findings
    def known_findings(self):
        if self._kf is None:
            p = os.path.join(VERIF, "known_findings.json")
            self._kf = json.load(open(p)) if os.path.exists(p) else []
        return self._kf

    def violation(self, key, what, detail=None):
        """Report a property-level violation identified by `key` (dict of scalars).  Known findings
        (status "known", every key of entry.match equal) become KNOWN-FINDING lines."""
        key = {k: v for k, v in key.items()}
        for e in self.known_findings():
            if e.get("status") == "known" and e.get("property") == self.prop and \
                    all(key.get(k) == v for k, v in e.get("match", {}).items()):
                tag = json.dumps(e["match"], sort_keys=True)
                if tag not in [k[0] for k in self.known_hits]:
                    self.known_hits.append((tag, e.get("what", what)))
                    print("KNOWN-FINDING: property=%s %s %s" % (self.prop, e.get("what", what), tag), flush=True)
                return False
        if any(v["key"] == key for v in self.violations):
            return True
        n = len(self.violations) + 1
        rdir = os.path.join(VERIF if REPO == "/repo" else "/tmp/auverif_alt_evidence", "replays", self.prop, "%s_%d_%d" % (self.tier, self.seed, n))
        if len(self.violations) < 25:
            os.makedirs(rdir, exist_ok=True)
            with open(os.path.join(rdir, "replay.json"), "w") as f:
                json.dump({"property": self.prop, "tier": self.tier, "seed": self.seed, "key": key,
                           "what": what, "detail": detail}, f, indent=1, default=str)
            print("VIOLATION property=%s replay=%s" % (self.prop, rdir), flush=True)
            print("  what: %s  key=%s" % (what, json.dumps(key, sort_keys=True, default=str)), flush=True)
        self.violations.append({"key": key, "what": what, "replay": rdir})
        return True

    def model_drift(self, what):
        self.drift.append(what)
        print("MODEL-DRIFT: property=%s %s" % (self.prop, what), flush=True)

    # ------------------------------------------------------------------ evidence
    def finish(self):
        wall = time.time() - self.t0
        cov = {
            "states": int(self.states), "transitions": int(self.transitions),
            "traces_validated_against_impl": int(self.traces),
            "evaluations": int(self.evaluations), "distinct_nontrivial": int(self.nontrivial),
            "programs": int(self.programs),
            "rule": self.rule, "samples": self.samples[:8] or ["(none)"], "exhaustive": bool(self.exhaustive),
            "tlc_runs": self.tlc_runs, "layers": self.layers,
            "known_findings_printed": [k[0] for k in self.known_hits],
            "model_drift": self.drift, "notes": self.notes,
        }
        ev = {"property_id": self.prop, "tier": self.tier, "seed": int(self.seed), "level": "model_checking",
              "coverage": cov, "assumptions": self.assumptions, "wall_s": round(wall, 2),
              "violations": len(self.violations)}
        evdir = os.path.join(VERIF, "evidence") if REPO == "/repo" else os.environ.get("AU_VERIF_ALT_EVIDENCE", "/tmp/auverif_alt_evidence")
        os.makedirs(evdir, exist_ok=True)
        with open(os.path.join(evdir, self.prop + ".json"), "w") as f:
            json.dump(ev, f, indent=1, default=str)
        if self.violations:
            import collections
            cls = collections.Counter(re.sub(r"[0-9]+", "#", v["what"])[:110] for v in self.violations)
            for w, n in cls.most_common(12):
                self.log("violation class x%d: %s" % (n, w))
        self.log("done: states=%d transitions=%d traces=%d evaluations=%d violations=%d known=%d wall=%.1fs" % (
            self.states, self.transitions, self.traces, self.evaluations, len(self.violations),
            len(self.known_hits), wall))
        return 1 if self.violations else 0


def harness_farm(ctx, groups, make_src, cfgs, args, batch=6, opt="-O1", tag="h", run_timeout=3000, defines=None):
    """Compile-and-run farm.  `groups`: dict key -> list of instances (instances of one key share a TU).
    `make_src(list)` returns C++ source text.  A TU that fails to compile is bisected; an instance that
    does not compile on its own is returned in `dropped` with its diagnostics.  Clang configurations are
    built with the UBSan flag handlers, g++ ones plain.  Returns (records, dropped, n_programs)."""
    batches = []
    for key, lst in groups.items():
        for i in range(0, len(lst), batch):
            batches.append(lst[i:i + batch])
    jobs = [(bi, b, cfg) for bi, b in enumerate(batches) for cfg in cfgs]
    dropped = []
    counter = [0]

    def build(job):
        bi, b, cfg = job
        counter[0] += 1
        name = "%s_%s_%d_%d" % (tag, cfg, bi, counter[0])
        src = ctx.write(name + ".cc", make_src(b))
        exe = ctx.path(name)
        if cfg.startswith("c"):
            rc, out = ctx.cxx_ubsan(src, exe, cfg=cfg, opt=opt, defines=defines)
        else:
            rc, out = ctx.cxx(src, exe, cfg=cfg, opt=opt, flags=[os.path.join(HARNESS, "noub.cc")], defines=defines)
        if rc == 0:
            return [(exe, b, cfg)]
        if len(b) == 1:
            dropped.append((b[0], cfg, "\n".join([l for l in out.splitlines() if "error" in l or "limit" in l][:8])))
            return []
        h = len(b) // 2
        return build((bi, b[:h], cfg)) + build((bi, b[h:], cfg))
    built = [x for lst in ctx.pmap(build, jobs) for x in lst]

    def run(x):
        exe, b, cfg = x
        a = args(b, cfg) if callable(args) else args
        recs = ctx.run_ndjson(exe, a, timeout=run_timeout)
        for r in recs:
            r["cfg"] = cfg
        return recs
    allrecs = [r for lst in ctx.pmap(run, built) for r in lst]
    ctx.programs += len(built)
    for r in allrecs:
        if r.get("k") == "crash":
            ctx.violation({"crash": r["inflight"]}, ("the library did not return within the watchdog time from a public call: %s [%s]" % (r["inflight"], r["cfg"])) if r["sig"] == 14
                          else ("the library raised fatal signal %d inside a public call: %s [%s]" % (r["sig"], r["inflight"], r["cfg"])), detail=r)
    return allrecs, dropped, len(built)


def wire_to_int(w):
    v = 0
    for limb in reversed(w["l"]):
        v = v * 10000 + limb
    return v * (w["s"] if w["s"] else 0)


def fval(x):
    """human-readable rendering of a float wire value"""
    if x["cls"] != "fin":
        return ("-" if x.get("s") else "") + x["cls"]
    return "%s%d*2^%d" % ("-" if x["s"] else "", wire_to_int(x["m"]), x["e"])


def first_error_in_au(diag):
    """False iff the first compiler error is located in the generated source itself (a generator bug); errors located in
    an Au header, or in a standard header while instantiating Au code, are blamed on the library (DESIGN 5.4)."""
    lines = diag if isinstance(diag, list) else diag.splitlines()
    for l in lines:
        if "error" in l:
            loc = l.split("error")[0]
            return not ("/auverif_" in loc or loc.strip().startswith("<"))
    return False
