"""C03 / C04: same-rep integer conversions and their run-time checkers (one engine, two ids)."""
import json
import os
import random

from . import core

CXX_T = {"i8": "int8_t", "u8": "uint8_t", "i16": "int16_t", "u16": "uint16_t", "i32": "int32_t",
         "u32": "uint32_t", "i64": "int64_t", "u64": "uint64_t", "f32": "float", "f64": "double", "f80": "long double"}

LAYER_A = {
    "quick": [("i5p", dict(IntBits=8, TBits=5, TSigned="TRUE", MaxF=90)),
              ("u5p", dict(IntBits=8, TBits=5, TSigned="FALSE", MaxF=90)),
              ("i6", dict(IntBits=6, TBits=6, TSigned="TRUE", MaxF=70)),
              ("u6", dict(IntBits=6, TBits=6, TSigned="FALSE", MaxF=70))],
    "thorough": [("i5p", dict(IntBits=8, TBits=5, TSigned="TRUE", MaxF=140)),
                 ("u5p", dict(IntBits=8, TBits=5, TSigned="FALSE", MaxF=140)),
                 ("i4p9", dict(IntBits=9, TBits=4, TSigned="TRUE", MaxF=260)),
                 ("u6p9", dict(IntBits=9, TBits=6, TSigned="FALSE", MaxF=200)),
                 ("i7", dict(IntBits=7, TBits=7, TSigned="TRUE", MaxF=130)),
                 ("u7", dict(IntBits=7, TBits=7, TSigned="FALSE", MaxF=130)),
                 ("i8", dict(IntBits=8, TBits=8, TSigned="TRUE", MaxF=140)),
                 ("u8", dict(IntBits=8, TBits=8, TSigned="FALSE", MaxF=140))],
}
INVS = "OvfExact TruncExact ClearedIsExact ClearedNoUB OvfMonotone NoFalseLossy"


def layer_a(ctx):
    cfgs = []
    for name, c in LAYER_A[ctx.tier]:
        p = ctx.write("MC_ApplyMag_%s.cfg" % name,
                      "CONSTANTS IntBits = %(IntBits)d TBits = %(TBits)d TSigned = %(TSigned)s MaxF = %(MaxF)d "
                      "RatTruncInPromoted = TRUE\nSPECIFICATION Spec\nINVARIANTS " % c + INVS + "\n")
        cfgs.append((name, p))

    def one(nc):
        return nc[0], ctx.tlc("ApplyMagnitude.tla", cfg=nc[1], workers=4, timeout=1500, name="layerA " + nc[0],
                              coverage=True, allow_violation=True)
    res = ctx.pmap(one, cfgs, workers=4)
    det = {}
    for name, r in res:
        if r.violated:
            raise core.ToolError("Layer A: invariant %s of ApplyMagnitude.tla fails in config %s: the implementation-shaped "
                                 "model no longer satisfies the property-level predicate\n%s" % (
                                     r.violated, name, "\n".join(r.out.splitlines()[-25:])))
        zero = [a for a, (taken, _g) in r.coverage.items() if a in ("IntMul", "IntDiv", "RatMul", "RatDiv", "Narrow") and taken == 0]
        if zero:
            raise core.ToolError("Layer A vacuity: actions never taken in %s: %s" % (name, zero))
        det[name] = {"distinct": r.distinct, "generated": r.generated,
                     "actions": {a: v[0] for a, v in r.coverage.items() if a in ("IntMul", "IntDiv", "RatMul", "RatDiv", "Narrow")}}
    ctx.layers["A"] = {"module": "ApplyMagnitude.tla", "invariants": INVS.split(), "configs": det, "exhaustive": True}


def gen_contracts(ctx):
    rnd = random.Random(ctx.seed)
    extra = []
    n_extra = 6 if ctx.tier == "quick" else 40
    for _ in range(n_extra):
        bits_n = rnd.choice([3, 7, 12, 20, 31, 33, 50, 63])
        bits_d = rnd.choice([3, 7, 12, 20, 31, 33, 50, 63])
        extra.append({"n": str(rnd.getrandbits(bits_n) | 1), "d": str((rnd.getrandbits(bits_d) | 1) + 2)})
    ep = ctx.path("extra_factors.ndjson")
    with open(ep, "w") as f:
        for e in extra:
            f.write(json.dumps(e) + "\n")
    r = ctx.tlc("Gen_Conv.tla", env={"TIER": ctx.tier, "EXTRA": ep}, timeout=900, name="gen contracts")
    if not r.ok or len(r.cases) != r.distinct or not r.cases:
        raise core.ToolError("Gen_Conv: %d cases for %d distinct states\n%s" % (len(r.cases), r.distinct, r.out[-1500:]))
    return r.cases


def gen_tu(ctx, name, insts):
    lines = ['#include "conv_sweep.hh"', "int main(int argc, char **argv) {", "  auv::Opts o = auv::parse_opts(argc, argv);"]
    for c in insts:
        lines.append('  auv::sweep<%s, %sULL, %sULL, %s>("%s", "%s", "%s", o);' % (
            CXX_T[c["T"]], c["N"], c["D"], "true" if c["implicit"] else "false", c["lo"], c["hi"], c["mod"]))
    lines += ["  return 0;", "}"]
    return ctx.write(name + ".cc", "\n".join(lines) + "\n")


def build_and_run(ctx, cases, cfgs, opts):
    """Returns (records, sums, dropped).  Instances whose TU does not compile are bisected; an
    instance that does not compile on its own is outside the domain ("conversion compiles")."""
    todo = [c for c in cases if c["compiles"]]
    skipped_pred = [c for c in cases if not c["compiles"]]
    by_t = {}
    for c in todo:
        by_t.setdefault(c["T"], []).append(c)
    batches = []
    for t, lst in by_t.items():
        lst.sort(key=lambda c: (len(c["N"]) + len(c["D"]), c["N"], c["D"]))
        if opts.get("full32") and t in ("i32", "u32"):
            # all 2^32 values: four instances per rep, each alone in its program, in the plain g++ build only (measured: a sanitizer build
            # needs ~50 min per instance, the plain build ~10); the other instances get the boundary / random treatment
            stride = max(1, len(lst) // 4)
            full = [c for j, c in enumerate(lst) if j % stride == 1][:4]
            for c in full:
                c["_full32"] = True
                batches.append([c])
            lst = [c for c in lst if not c.get("_full32")]
        k = 6
        for i in range(0, len(lst), k):
            batches.append(lst[i:i + k])
    jobs = []
    for bi, b in enumerate(batches):
        for cfg in cfgs:
            jobs.append((bi, b, cfg))
    dropped = []
    ctx.log("conversion harness: %d instances in %d TUs x %d configs" % (len(todo), len(batches), len(cfgs)))

    def build(job, depth=0):
        bi, b, cfg = job
        name = "conv_%s_%d_%d" % (cfg, bi, depth) + ("_%s" % abs(hash(tuple((c["T"], c["N"], c["D"]) for c in b)))) [:10]
        src = gen_tu(ctx, name, b)
        exe = ctx.path(name)
        if cfg.startswith("c"):
            rc, out = ctx.cxx_ubsan(src, exe, cfg=cfg, opt="-O1")
        else:
            rc, out = ctx.cxx(src, exe, cfg=cfg, opt="-O1", flags=[os.path.join(core.HARNESS, "noub.cc")])
        if rc == 0:
            return [(exe, b, cfg)]
        if len(b) == 1:
            dropped.append((b[0], cfg, "\n".join([l for l in out.splitlines() if "error" in l or "limit" in l][:8])))
            return []
        h = len(b) // 2
        return build((bi, b[:h], cfg), depth * 2 + 1) + build((bi, b[h:], cfg), depth * 2 + 2)
    built = [x for lst in ctx.pmap(build, jobs) for x in lst]

    def run(x):
        exe, b, cfg = x
        full32 = bool(opts.get("full32")) and all(c.get("_full32") for c in b) and cfg == "g14"
        args = ["--seed", str(ctx.seed), "--nrandom", str(opts["nrandom"]), "--nbhd", str(opts["nbhd"]),
                "--sample-shift", str(opts["sample_shift"] + (14 if full32 else 0)), "--full32", "1" if full32 else "0"]
        recs = ctx.run_ndjson(exe, args, timeout=6000 if full32 else 3000)
        for r in recs:
            r["cfg"] = cfg
        return recs
    allrecs = [r for lst in ctx.pmap(run, built) for r in lst]
    ctx.programs += len(built)
    return [r for r in allrecs if r["k"] == "conv"], [r for r in allrecs if r["k"] == "sum"], dropped, skipped_pred


def wire_to_int(w):
    v = 0
    for limb in reversed(w["l"]):
        v = v * 10000 + limb
    return v * (w["s"] if w["s"] else 0)


def run(ctx, which):
    ctx.rule = ("Layer A: every state of the scaled conversion pipeline (all values x all coprime factors). "
                "Layer B/C: TLC (BigInt) emits the contract <category, lo, hi, modulus> of every (rep, N, D) grid instance; "
                "a contract comparator sweeps the real library (8/16-bit exhaustive, boundary neighbourhoods + seeded random "
                "for wider reps) and every disagreement, every boundary point and a seeded sample is re-derived by TLC from "
                "the raw inputs.  Non-trivial = distinct (instance, input) with the input on or adjacent to a contract boundary (lo, hi, 0, +-modulus, type limits, last multiple of the modulus in range), counted once (first configuration).")
    ctx.assumptions += ["LP64, int = 32 bits", "clang UBSan instrumentation flags UB / unsigned wrap inside the call",
                        "TLC + pure-TLA+ BigInt (self-tested by MC_BigInt)", "domain 'conversion compiles' decided by compiling"]
    layer_a(ctx)
    ctx.log("layer A done: %d states" % ctx.states)
    cases = gen_contracts(ctx)
    ctx.log("contracts: %d" % len(cases))
    if ctx.tier == "quick":
        cfgs, opts = ["c20", "g14"], dict(nrandom=1 << 11, nbhd=40, sample_shift=11)
    else:
        cfgs, opts = ["c20", "g14", "c14", "g20"], dict(nrandom=1 << 16, nbhd=64, sample_shift=13, full32=True)
    recs, sums, dropped, skipped = build_and_run(ctx, cases, cfgs, opts)
    swept = sum(s["swept"] for s in sums)
    ctx.evaluations += swept
    ctx.nontrivial += sum(s["nontrivial"] for s in sums if s.get("cfg") == cfgs[0])
    inst_done = {(s["T"], s["N"], s["D"]) for s in sums}
    ctx.log("swept %d conversions over %d instances; %d records to TLC; %d dropped (do not compile), %d predicted non-compiling" % (
        swept, len(inst_done), len(recs), len(dropped), len(skipped)))
    limit = [d for d in dropped if "constexpr" in d[2] and "limit" in d[2]]
    dropped = [d for d in dropped if d not in limit]
    if limit:
        ctx.notes.append("%d instances hit the compiler's constexpr step limit while factoring and were dropped from the domain: %s" % (
            len(limit), sorted({(d[0]["T"], d[0]["N"], d[0]["D"]) for d in limit})[:6]))
    if dropped:
        ctx.model_drift("%d instances predicted to compile did not (outside the domain): %s" % (
            len(dropped), sorted({(d[0]["T"], d[0]["N"], d[0]["D"]) for d in dropped})[:5]))
    if len(inst_done) < 0.6 * len([c for c in cases if c["compiles"]]) and not ctx.violations:
        raise core.ToolError("too few instances ran: %d" % len(inst_done))
    # every comparator mismatch must have been logged (cap 40 per instance) -> adjudicated by TLC
    nval, bad = ctx.tlc_batch_validate("Trace_Conv.tla", recs, name="conv")
    mism = [r for r in recs if r["why"] == "mismatch"]
    badkeys = set()
    for b in bad:
        r = b["rec"]
        key = {"T": r["T"], "N": str(wire_to_int(r["N"])), "D": str(wire_to_int(r["D"])), "x": str(wire_to_int(r["x"]))}
        badkeys.add((r["T"], key["N"], key["D"], key["x"], r["cfg"]))
        lib_wrong_c04 = not b["c04"]
        lib_wrong_c03 = not b["c03"]
        if not b["cmp"] and not lib_wrong_c04 and not lib_wrong_c03:
            raise core.ToolError("comparator/contract disagrees with the specification on %s" % json.dumps(b))
        if which == "C04" and lib_wrong_c04:
            call = "will_conversion_truncate" if (r["trunc"] == 1) != b["et"] else (
                "will_conversion_overflow" if (r["ovf"] == 1) != b["eo"] else "is_conversion_lossy")
            key["call"] = call
            ctx.violation(key, "%s(%s x=%s, factor %s/%s) = %d but exact predicate is %s" % (
                call, r["T"], key["x"], key["N"], key["D"], r["trunc"] if call.endswith("truncate") else r["ovf"],
                b["et"] if call.endswith("truncate") else b["eo"]), detail=b)
        if which == "C03" and lib_wrong_c03:
            key["call"] = "coerce_in"
            ctx.violation(key, "cleared conversion %s x=%s by %s/%s: result %s ub=%d (not exact or UB/wrap)" % (
                r["T"], key["x"], key["N"], key["D"], wire_to_int(r["res"]), r["ub"]), detail=b)
    for r in mism:
        k = (r["T"], str(wire_to_int(r["N"])), str(wire_to_int(r["D"])), str(wire_to_int(r["x"])), r["cfg"])
        if k not in badkeys:
            if r.get("ubchk"):
                ctx.violation({"T": k[0], "N": k[1], "D": k[2], "x": k[3], "call": "checkers-ub"},
                              "the same-rep checkers executed undefined behaviour and answered inconsistently for %s x=%s factor %s/%s" % (k[0], k[3], k[1], k[2]), detail=r)
                continue
            raise core.ToolError("comparator mismatch not confirmed by TLC (comparator bug?): %s" % json.dumps(r))
    if which == "C04":
        float_clause(ctx, cfgs)
    for r in recs[:3]:
        ctx.sample({"T": r["T"], "N": wire_to_int(r["N"]), "D": wire_to_int(r["D"]), "x": wire_to_int(r["x"]),
                    "ovf": r["ovf"], "trunc": r["trunc"], "lossy": r["lossy"], "res": wire_to_int(r["res"]), "ub": r["ub"]})
    for c in cases[:2]:
        ctx.sample(c)
    ctx.layers["BC"] = {"instances": len(inst_done), "conversions_swept": swept, "records_validated_by_TLC": nval,
                        "configs": cfgs, "comparator_mismatches": sum(s["mismatches"] for s in sums),
                        "predicted_non_compiling_skipped": len(skipped), "dropped_non_compiling": len(dropped),
                        "exhaustive_8_16_bit": True}
    ctx.exhaustive = False


FLOAT_FACTORS = {
    "quick": [("3", "1"), ("1", "3"), ("1000", "1"), ("1", "1000"), ("5", "9"), ("9", "5"), ("1143", "1250"), ("1024", "1"), ("1", "1024"), ("1", "1")],
    "thorough": [("3", "1"), ("1", "3"), ("1000", "1"), ("1", "1000"), ("5", "9"), ("9", "5"), ("1143", "1250"), ("1024", "1"), ("1", "1024"), ("1", "1"),
                 ("7", "1"), ("10", "1"), ("1", "10"), ("1000000000", "1"), ("1", "1000000000"), ("25", "9"), ("127", "128"), ("1001", "1000"),
                 ("18446744073709551557", "3"), ("3", "18446744073709551557"), ("3600", "1"), ("1", "3600"), ("254", "100"), ("100", "254")],
}


def float_clause(ctx, cfgs):
    """C04, floating reps: same-rep will_conversion_overflow on f32/f64/f80 around max/factor (nextafter chains),
    specials and random values; judged by TLC with exact values (CastBig.tla VerdictSameF)."""
    insts = [{"S": t, "T": t, "N": n, "D": d} for t in ("f32", "f64", "f80") for (n, d) in FLOAT_FACTORS[ctx.tier]]

    def make_src(b):
        lines = ['#include "cast_sweep.hh"', "int main(int argc, char **argv) {", "  auv::COpts o = auv::parse_copts(argc, argv);"]
        for c in b:
            lines.append('  auv::sweep_f<%s, %s, %sULL, %sULL>(o);' % (CXX_T[c["S"]], CXX_T[c["T"]], c["N"], c["D"]))
        return "\n".join(lines + ["  return 0;", "}"]) + "\n"
    groups = {}
    for c in insts:
        groups.setdefault(c["S"], []).append(c)
    args = ["--seed", str(ctx.seed), "--nrandom", "200" if ctx.tier == "quick" else "4000", "--fchain", "6" if ctx.tier == "quick" else "16"]
    recs, dropped, nprog = core.harness_farm(ctx, groups, make_src, cfgs, args, batch=5, tag="convf")
    for d in dropped[:20]:
        if not core.first_error_in_au(d[2]):
            raise core.ToolError("floating conversion harness does not compile: %s" % (d[2],))
        ctx.violation({"T": d[0]["S"], "N": d[0]["N"], "D": d[0]["D"], "call": "float-checkers", "kind": "rejected"},
                      "same-rep checkers / conversion of a %s quantity by %s/%s do not compile [%s]: %s" % (d[0]["S"], d[0]["N"], d[0]["D"], d[1], d[2][:300]), detail=d[2])
    obs = [r for r in recs if r["k"] == "castf"]
    nval, bad = ctx.tlc_batch_validate("Trace_ConvF.tla", obs, name="convf")
    ctx.evaluations += len(obs)
    ctx.nontrivial += sum(s["nontrivial"] for s in recs if s["k"] == "sumf" and s["cfg"] == cfgs[0])
    for b in bad:
        r, v = b["rec"], b["v"]
        key = {"call": "will_conversion_overflow", "T": r["T"], "N": str(wire_to_int(r["N"])), "D": str(wire_to_int(r["D"])), "x": core.fval(r["x"])}
        ctx.violation(key, "will_conversion_overflow(%s x=%s, factor %s/%s) = %d, product=%s; spec: exceeds-max=%s safely-below=%s" % (
            r["T"], key["x"], key["N"], key["D"], r["ovf0"], core.fval(r["y"]), v["exceeds"], v["safely"]), detail=b)
    if obs:
        r = obs[len(obs) // 2]
        ctx.sample({"T": r["T"], "N": wire_to_int(r["N"]), "D": wire_to_int(r["D"]), "x": core.fval(r["x"]), "ovf": r["ovf0"], "product": core.fval(r["y"])})
    ctx.layers["float_clause"] = {"instances": len(insts), "records_validated_by_TLC": nval, "configs": cfgs}
