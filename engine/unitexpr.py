"""Spelling of TLC-emitted unit expressions in C++ (no semantics: expected values come from TLC)."""
from . import unitcat

PRIME_FROM_KEY = lambda k: "Magnitude<Pi>{}" if k == 7 else "mag<%dULL>()" % (k // 2)


def powx(x, n, d):
    t = x if n == 1 else "pow<%d>(%s)" % (n, x)
    if d != 1:
        t = "root<%d>(%s)" % (d, t)
    return t


def mag_from_keys(m):
    """m: list of {"b": key, "e": [n, d]} (model keys: 2*prime, 7 = pi)"""
    parts = [powx(PRIME_FROM_KEY(bp["b"]), bp["e"][0], bp["e"][1]) for bp in m]
    return " * ".join(parts) if parts else "mag<1>()"


def mag_from_den(mag):
    """mag: list of {"b": key, "n", "d"} from the spec's denotation"""
    parts = [powx(PRIME_FROM_KEY(bp["b"]), bp["n"], bp["d"]) for bp in sorted(mag, key=lambda x: x["b"])]
    return " * ".join(parts) if parts else "mag<1>()"


def cap(p):
    return p[0].upper() + p[1:]


class Speller:
    def __init__(self, cat):
        self.cat = cat
        # base unit per base-dimension index: the catalogue unit with that single dimension, magnitude 1, no origin
        self.base = {}
        for u in cat.values():
            if len(u["dim"]) == 1 and u["dim"][0]["n"] == 1 and u["dim"][0]["d"] == 1 and not u["mag"] and not u.get("origin"):
                self.base.setdefault(u["dim"][0]["b"], u["id"])

    def headers(self, ids=None):
        return sorted({u["header"] for u in self.cat.values() if "header" in u and (ids is None or u["id"] in ids)})

    def leaves(self, e):
        if e["op"] == "unit":
            return {e["id"]}
        if e["op"] in ("mul", "div"):
            return self.leaves(e["l"]) | self.leaves(e["r"])
        return self.leaves(e["x"])

    # -- the five spellings; return None where the API does not offer the operation
    def inst(self, e):
        op = e["op"]
        if op == "unit":
            return e["id"] + "{}"
        if op == "mul":
            return "(%s * %s)" % (self.inst(e["l"]), self.inst(e["r"]))
        if op == "div":
            return "(%s / %s)" % (self.inst(e["l"]), self.inst(e["r"]))
        if op == "pow":
            return powx(self.inst(e["x"]), e["r"][0], e["r"][1])
        if op == "scale":
            return "(%s * (%s))" % (self.inst(e["x"]), mag_from_keys(e["m"]))
        if op == "prefix":
            return "%s(%s)" % (e["p"], self.inst(e["x"]))

    def type(self, e):
        op = e["op"]
        if op == "unit":
            return e["id"]
        if op == "mul":
            return "UnitProductT<%s, %s>" % (self.type(e["l"]), self.type(e["r"]))
        if op == "div":
            return "UnitQuotientT<%s, %s>" % (self.type(e["l"]), self.type(e["r"]))
        if op == "pow":
            return "UnitPowerT<%s, %d, %d>" % (self.type(e["x"]), e["r"][0], e["r"][1])
        if op == "scale":
            return "decltype(%s{} * (%s))" % (self.type(e["x"]), mag_from_keys(e["m"]))
        if op == "prefix":
            return "%s<%s>" % (cap(e["p"]), self.type(e["x"]))

    def _wrapped(self, e, leaf):
        op = e["op"]
        if op == "unit":
            return leaf(e["id"])
        sub = lambda x: self._wrapped(x, leaf)
        if op in ("mul", "div"):
            l, r = sub(e["l"]), sub(e["r"])
            return None if l is None or r is None else "(%s %s %s)" % (l, "*" if op == "mul" else "/", r)
        x = sub(e["x"])
        if x is None:
            return None
        if op == "pow":
            return powx(x, e["r"][0], e["r"][1])
        if op == "scale":
            return "(%s * (%s))" % (x, mag_from_keys(e["m"]))
        if op == "prefix":
            return "%s(%s)" % (e["p"], x)

    def maker(self, e):
        return self._wrapped(e, lambda i: self.cat[i].get("maker"))

    def symbol(self, e):
        return self._wrapped(e, lambda i: ("symbols::" + self.cat[i]["symbol"]) if self.cat[i].get("symbol") else None)

    def constant(self, e):
        # prefix appliers have no overload for Constant: a prefixed leaf is wrapped as a whole
        def w(x):
            if x["op"] == "prefix":
                inner = self.inst(x)
                return "make_constant(%s)" % inner
            if x["op"] == "unit":
                return "make_constant(%s{})" % x["id"]
            if x["op"] in ("mul", "div"):
                return "(%s %s %s)" % (w(x["l"]), "*" if x["op"] == "mul" else "/", w(x["r"]))
            if x["op"] == "pow":
                return powx(w(x["x"]), x["r"][0], x["r"][1])
            if x["op"] == "scale":
                return "(%s * (%s))" % (w(x["x"]), mag_from_keys(x["m"]))
        return w(e)

    def sing_pure(self, e):
        """an expression spelled with singular names only: a name, a product of such, an integer power of such (the API offers exactly
        SingularNameFor * SingularNameFor and pow<N>(SingularNameFor))"""
        op = e["op"]
        if op == "unit":
            return self.cat[e["id"]].get("singular")
        if op == "mul":
            l, r = self.sing_pure(e["l"]), self.sing_pure(e["r"])
            return None if l is None or r is None else "(%s * %s)" % (l, r)
        if op == "pow" and e["r"][1] == 1:
            x = self.sing_pure(e["x"])
            return None if x is None else "pow<%d>(%s)" % (e["r"][0], x)
        return None

    def singular(self, e):
        """maker (op) singular-name forms: `x * leaf`, `x / leaf`, and everything spelled with singular names only"""
        pure = self.sing_pure(e)
        if pure is not None:
            return pure
        op = e["op"]
        sg = lambda x: self.cat[x["id"]].get("singular") if x["op"] == "unit" else None
        if op == "unit":
            return sg(e)
        if op == "div" and sg(e["r"]):       # QuantityMaker / SingularNameFor
            l = self.maker(e["l"])
            return None if l is None else "(%s / %s)" % (l, sg(e["r"]))
        if op == "mul" and sg(e["l"]):       # SingularNameFor * QuantityMaker
            r = self.maker(e["r"])
            return None if r is None else "(%s * %s)" % (sg(e["l"]), r)
        if op == "pow" and e["r"][1] == 1 and sg(e["x"]):
            return "pow<%d>(%s)" % (e["r"][0], sg(e["x"]))
        return None

    def reference(self, dim, mag):
        """a unit built only from base units and a magnitude, with the exponents the specification assigns"""
        parts = []
        for bp in sorted(dim, key=lambda x: x["b"]):
            if bp["b"] not in self.base:
                return None
            parts.append(powx(self.base[bp["b"]] + "{}", bp["n"], bp["d"]))
        r = " * ".join(parts) if parts else "UnitProductT<>{}"
        return "((%s) * (%s))" % (r, mag_from_den(mag))


def expr_str(e):
    op = e["op"]
    if op == "unit":
        return e["id"]
    if op in ("mul", "div"):
        return "(%s%s%s)" % (expr_str(e["l"]), "*" if op == "mul" else "/", expr_str(e["r"]))
    if op == "pow":
        return "%s^%d%s" % (expr_str(e["x"]), e["r"][0], "" if e["r"][1] == 1 else "/%d" % e["r"][1])
    if op == "scale":
        return "%s*[%s]" % (expr_str(e["x"]), ",".join("%d^%d/%d" % (b["b"], b["e"][0], b["e"][1]) for b in e["m"]))
    if op == "prefix":
        return "%s(%s)" % (e["p"], expr_str(e["x"]))
