"""Walks through the type-state machine of a quantity (spec/Walk.tla): TLC -simulate generates defined straight-line programs,
they are compiled against the real library, every step logs the static type and stored value, and Trace_Walk.tla validates the
recorded executions in behaviour mode (one spec action per executed step, state re-synchronised after a mismatch)."""
import json
import os

from . import core
from .convcheck import CXX_T

SUFFIX = {"i64": "LL", "u64": "ULL", "u32": "U", "i32": ""}


def lit(rep, v):
    v = int(v)
    if rep == "i64" and v == -(1 << 63):
        return "int64_t{-9223372036854775807LL - 1}"
    if rep == "i32" and v == -(1 << 31):
        return "int32_t{-2147483647 - 1}"
    return "%s{%d%s}" % (CXX_T[rep], v, SUFFIX.get(rep, ""))


def spell(step, prev):
    a, g = step["a"], step["args"]
    if a == "Make":
        return "make_quantity<%s>(%s)" % (g["unit"], lit(g["rep"], g["v"]))
    if a == "As":
        return "%s.as(%s{})" % (prev, g["unit"])
    if a == "CoerceAs":
        return "%s.coerce_as(%s{})" % (prev, g["unit"])
    if a == "RepCast":
        return "rep_cast<%s>(%s)" % (CXX_T[g["rep"]], prev)
    if a in ("AddLit", "SubLit"):
        return "%s %s make_quantity<%s>(%s)" % (prev, "+" if a == "AddLit" else "-", g["unit"], lit(g["rep"], g["v"]))
    if a == "ModLit":
        return "%s %% make_quantity<%s>(%s)" % (prev, g["unit"], lit(g["rep"], g["v"]))
    if a == "DivInt":
        return "%s / (%d)" % (prev, g["k"])
    if a == "MulInt":
        return "%s * (%d)" % (prev, g["k"])
    if a == "Neg":
        return "-%s" % prev
    if a == "CmpLit":
        return prev
    raise core.ToolError("unknown walk action %s" % a)


def run(ctx, own_actions, prop_words, nwalks=None, seed_offset=0):
    """own_actions: the actions whose mismatches belong to the calling property; mismatches of other actions are reported as notes
    (they are violations of the property that owns that action and are raised by its check)."""
    quick = ctx.tier == "quick"
    depth = 7
    cfg = ctx.write("Walk_run.cfg", "CONSTANT Depth = %d\nSPECIFICATION Spec\nINVARIANT WellFormed\nINVARIANT EmitW\nCHECK_DEADLOCK FALSE\n" % depth)
    nwalks = nwalks or (200 if quick else 3000)
    old_seed = ctx.seed
    ctx.seed = old_seed + seed_offset          # a different sample of walks per calling property
    try:
        g = ctx.tlc("Walk.tla", cfg=cfg, simulate=max(150, nwalks * 3 // 4), depth=depth + 2, workers=1, timeout=3000, name="walk generation (simulate)", count=False, allow_violation=True)
    finally:
        ctx.seed = old_seed
    if g.violated:
        raise core.ToolError("Walk.tla: %s violated\n%s" % (g.violated, "\n".join(g.out.splitlines()[-20:])))
    seen = {}
    for c in g.cases:
        steps = c["steps"]
        key = json.dumps([(s["a"], s["args"]) for s in steps], sort_keys=True)
        seen[key] = steps
    keys = sorted(seen)
    # keep maximal walks only (drop proper prefixes)
    maximal = [k for i, k in enumerate(keys) if not (i + 1 < len(keys) and keys[i + 1].startswith(k[:-1]))]
    walks = [seen[k] for k in maximal]
    if len(walks) < 50:
        raise core.ToolError("walk generation produced only %d walks" % len(walks))
    import random
    random.Random(ctx.seed).shuffle(walks)
    walks = walks[:nwalks]
    groups = [{"id": i, "steps": w} for i, w in enumerate(walks)]

    def make_src(b):
        L = ['#include "walk_log.hh"', "using namespace au;", "int main() {"]
        for w in b:
            L.append("  {")
            for k, s in enumerate(w["steps"]):
                if s["a"] == "CmpLit":
                    lt = "make_quantity<%s>(%s)" % (s["args"]["unit"], lit(s["args"]["rep"], s["args"]["v"]))
                    L.append("    auto s%d = s%d; auv::wlogc(%d, %d, s%d, s%d < %s, s%d == %s, s%d > %s);" % (k, k - 1, w["id"], k, k, k, lt, k, lt, k, lt))
                else:
                    L.append("    auto s%d = %s; auv::wlog(%d, %d, s%d);" % (k, spell(s, "s%d" % (k - 1)), w["id"], k, k))
            L.append("  }")
        return "\n".join(L + ["  return 0;", "}"]) + "\n"
    cfgs = ["c20", "g14"] if quick else ["c20", "g14", "c14", "g20"]
    recs, dropped, nprog = core.harness_farm(ctx, {"walks": groups}, make_src, cfgs, [], batch=25, tag="walk")
    byid = {w["id"]: w for w in groups}
    for d in dropped:
        w = d[0]
        if not core.first_error_in_au(d[2]):
            raise core.ToolError("generated walk does not compile (generator bug?): %s" % d[2][:600])
        text = "; ".join(spell(s, "s%d" % (k - 1)) for k, s in enumerate(w["steps"]))
        acts = {s["a"] for s in w["steps"]}
        if acts & set(own_actions):
            ctx.violation({"kind": "walk rejected", "walk": text}, "a walk whose every step the specification permits does not compile [%s]: %s -- %s" % (d[1], text, d[2][:300]), detail=w)
    # traces per configuration, walks kept contiguous and ordered
    per_cfg = {}
    for r in recs:
        if r.get("k") == "wstep":
            per_cfg.setdefault(r["cfg"], {}).setdefault(r["w"], {})[r["i"]] = r["obs"]
    total, bad_all = 0, []
    shards = []
    for cfgname, ws in per_cfg.items():
        ids = sorted(ws)
        nsh = 8
        for k in range(nsh):
            lines = []
            for wid in ids[k::nsh]:
                steps = byid[wid]["steps"]
                if len(ws[wid]) != len(steps):
                    continue          # crashed mid-walk: reported by the farm as a crash record
                for i, s in enumerate(steps):
                    lines.append({"w": wid, "i": i, "a": s["a"], "args": s["args"], "obs": ws[wid][i], "cfg": cfgname})
            if lines:
                shards.append((cfgname, k, lines))

    def validate(sh):
        cfgname, k, lines = sh
        p = ctx.path("walk_trace_%s_%d.ndjson" % (cfgname, k))
        with open(p, "w") as f:
            for ln in lines:
                f.write(json.dumps(ln, separators=(",", ":")) + "\n")
        res = ctx.tlc("Trace_Walk.tla", env={"TRACE": p}, workers=1, timeout=3000, xmx="3g", name="walk trace", count=False)
        v = res.tagged.get("VALIDATED", [])
        got = sum(x.get("n", 0) for x in v)
        if got != len(lines):
            raise core.ToolError("walk trace %s: consumed %d of %d lines\n%s" % (p, got, len(lines), "\n".join(res.out.splitlines()[-25:])))
        return [(cfgname, lines[b["l"] - 1], b) for b in res.tagged.get("BADREC", [])], len(lines)
    for bads, n in ctx.pmap(validate, shards):
        total += n
        bad_all += bads
    ctx.traces += total
    others = 0
    for cfgname, line, b in bad_all:
        w = byid[line["w"]]
        text = "; ".join(spell(s, "s%d" % (k - 1)) for k, s in enumerate(w["steps"][: line["i"] + 1]))
        if line["a"] in own_actions:
            ctx.violation({"kind": "walk", "action": line["a"], "walk": text},
                          "walk step %d (%s) of `%s`: specification %s -> %s, observed %s [%s]" % (
                              line["i"], line["a"], text, "enabled" if b["enabled"] else "NOT enabled", b["expected"], b["observed"], cfgname), detail={"walk": w, "bad": b})
        else:
            others += 1
    if others:
        ctx.notes.append("%d walk steps of other actions diverge from Walk.tla (reported by the checks that own those actions)" % others)
    ctx.layers["walks"] = {"module": "Walk.tla / Trace_Walk.tla", "walks": len(walks), "steps_validated_in_behaviour_mode": total, "configs": cfgs,
                           "owned_actions": sorted(own_actions), "what": prop_words}
    ctx.evaluations += total
    return total
