"""Catalogue extraction (DESIGN 5.1): the library's units, prefixes and their definitions are read out of the
working tree at every run and handed to TLC as the constant `Cat`.  Definitions are inputs, not verified facts."""
import json
import os
import re
from fractions import Fraction

from . import core

UNITS_DIR = os.path.join(core.REPO, "au", "code", "au", "units")
PREFIXES = ["quetta", "ronna", "yotta", "zetta", "exa", "peta", "tera", "giga", "mega", "kilo", "hecto", "deka", "deci", "centi", "milli",
            "micro", "nano", "pico", "femto", "atto", "zepto", "yocto", "ronto", "quecto", "yobi", "zebi", "exbi", "pebi", "tebi", "gibi", "mebi", "kibi"]


def discover_units():
    """[(header, StructName, maker, singular, symbol)] for every library unit header"""
    out = []
    for f in sorted(os.listdir(UNITS_DIR)):
        if not f.endswith("_fwd.hh"):
            continue
        hdr = f[:-7] + ".hh"
        fwd = open(os.path.join(UNITS_DIR, f)).read()
        src = open(os.path.join(UNITS_DIR, hdr)).read() if os.path.exists(os.path.join(UNITS_DIR, hdr)) else ""
        for name in re.findall(r"^struct (\w+);", fwd, re.M):
            mk = re.search(r"constexpr auto (\w+) = QuantityMaker<%s>" % name, src)
            sg = re.search(r"constexpr auto (\w+) = SingularNameFor<%s>" % name, src)
            sy = re.search(r"constexpr auto (\w+) = SymbolFor<%s>" % name, src)
            pt = re.search(r"constexpr auto (\w+) = QuantityPointMaker<%s>" % name, src)
            out.append({"header": "au/units/" + hdr, "id": name, "maker": mk.group(1) if mk else None,
                        "singular": sg.group(1) if sg else None, "symbol": sy.group(1) if sy else None, "ptmaker": pt.group(1) if pt else None})
    return out


def extract(ctx, extra_units=None):
    """Returns dict id -> descriptor (dim, mag, origin, label, spellings).  extra_units: list of (id, c++ type expr, prelude)."""
    units = discover_units()
    inc = "\n".join('#include "%s"' % h for h in sorted({u["header"] for u in units}))
    lines = ['#include "unit_readout.hh"', '#include "au/prefix.hh"', inc, "using namespace au;"]
    for (_i, _t, pre) in (extra_units or []):
        if pre:
            lines.append(pre)
    lines.append("int main() {")
    for u in units:
        lines.append('  std::printf("%%s\\n", auv::unit_json<%s>("%s").c_str());' % (u["id"], u["id"]))
    for (i, t, _p) in (extra_units or []):
        lines.append('  std::printf("%%s\\n", auv::unit_json<%s>("%s").c_str());' % (t, i))
    for p in PREFIXES:
        P = p[0].upper() + p[1:]
        lines.append('  std::printf("{\\"prefix\\":\\"%s\\",\\"mag\\":%%s,\\"label\\":\\"%%s\\"}\\n", auv::mag_json(unit_ratio(%s<Meters>{}, Meters{})).c_str(), unit_label(%s<Meters>{}));' % (p, P, P))
    lines += ["  return 0;", "}"]
    src = ctx.write("catalogue.cc", "\n".join(lines) + "\n")
    exe = ctx.path("catalogue")
    rc, out = ctx.cxx(src, exe, cfg="g14", opt="-O0", flags=[os.path.join(core.HARNESS, "noub.cc")])
    if rc != 0:
        undef = [l for l in out.splitlines() if "undefined reference to" in l and "au::" in l]
        if undef:
            raise core.LibraryRejects("a program reading the labels of the library's and of user-defined units does not link at C++14: " + undef[0][-300:])
        raise core.ToolError("catalogue extraction does not compile:\n" + out[-3000:])
    recs = ctx.run_ndjson(exe)
    cat, prefixes = {}, {}
    meta = {u["id"]: u for u in units}
    for r in recs:
        if "prefix" in r:
            prefixes[r["prefix"]] = r
        else:
            r.update({k: v for k, v in meta.get(r["id"], {}).items() if k != "id"})
            cat[r["id"]] = r
    return cat, prefixes


def base_dim_collisions(ctx):
    """The catalogue identifies a base dimension by the index the library gives it, so two *different* base dimensions that share an
    index would be invisible to everything derived from the catalogue.  Reads the base-dimension types out of dimension.hh and returns the
    pairs with equal index (empty on a sane tree), decided by the compiler on the real types."""
    import re
    text = open(os.path.join(core.REPO, "au", "code", "au", "dimension.hh")).read()
    names = re.findall(r"struct\s+(\w+)\s*:\s*BaseDimension<", text)
    if len(names) < 2:
        return []
    L = ['#include "au/dimension.hh"', "#include <cstdio>", "int main() {"]
    for n in names:
        L.append('  std::printf("%s %%lld\\n", (long long)au::base_dim::%s::base_dim_index);' % (n, n))
    src = ctx.write("basedims.cc", "\n".join(L + ["  return 0;", "}"]) + "\n")
    exe = ctx.path("basedims")
    rc, out = ctx.cxx(src, exe, cfg="g14", opt="-O0")
    if rc != 0:
        raise core.ToolError("base dimension read-out does not compile:\n" + out[-1500:])
    idx = {}
    for line in ctx.run_bin(exe).splitlines():
        n, i = line.split()
        idx.setdefault(int(i), []).append(n)
    return [(i, ns) for i, ns in sorted(idx.items()) if len(ns) > 1]


BASE_UNIT_NAMES = ("Meters", "Grams", "Seconds", "Amperes", "Kelvins", "Moles", "Candelas", "Radians", "Bits")


def check_base_dims(ctx, cat):
    """TLC judges that the library's base units have pairwise different single-base dimensions (Trace_BaseDims.tla)."""
    recs = [{"id": u, "dim": cat[u]["dim"]} for u in BASE_UNIT_NAMES if u in cat]
    n, bad = ctx.tlc_batch_validate("Trace_BaseDims.tla", recs, name="basedims", shards=1)
    return bad


def check_prefixes(ctx, prefixes, want):
    """TLC judges the prefix templates of the tree against the SI / IEC tables written in Trace_Prefixes.tla.  want: "mag" | "symbol".
    Returns the list of offending prefix names (and reports the ones the tree no longer defines as notes)."""
    recs = [{"prefix": k, "mag": v["mag"], "label": v["label"]} for k, v in sorted(prefixes.items())]
    n, bad = ctx.tlc_batch_validate("Trace_Prefixes.tla", recs, name="prefixes", shards=1)
    return [b for b in bad if not b[("mag_ok" if want == "mag" else "symbol_ok")]]


def mag_fraction(mag):
    """exact Fraction of a rational magnitude pack, None if irrational / fractional exponents"""
    v = Fraction(1)
    for bp in mag:
        if bp["b"] == "pi" or bp["d"] != 1:
            return None
        v *= Fraction(int(bp["b"])) ** bp["n"]
    return v


def tla_str(x):
    return x.replace("\\", "\\\\").replace('"', '\\"')


def tla_pack(pack, key):
    return "<<" + ", ".join("[b |-> %s, e |-> <<%d, %d>>]" % (key(bp["b"]), bp["n"], bp["d"]) for bp in pack) + ">>"


def magkey(b):
    return "7" if b == "pi" else str(2 * int(b))      # order of bases by value: 3 < pi < 5  ->  6 < 7 < 10


def origin_fraction(u):
    o = u.get("origin")
    if not o:
        return Fraction(0)
    f = mag_fraction(o["mag"])
    return Fraction(int(o["count"])) * f if f is not None else None


def write_catalogue_tla(ctx, cat, ids, prefixes=None, module="Catalogue"):
    """TLA+ module defining CatDef (function id -> [dim, mag, origin]) for the given unit ids.  Magnitude bases are
    encoded as 2*prime (pi = 7) so that TLC's native order on the keys is the library's order by value."""
    rows = []
    for i in ids:
        u = cat[i]
        of = origin_fraction(u)
        # the unit's own magnitude is relative to the base units; origin in base units as a rational
        rows.append('  %s |-> [dim |-> %s, mag |-> %s, origin |-> <<%d, %d>>]' % (
            i, tla_pack(u["dim"], str), tla_pack(u["mag"], magkey), of.numerator, of.denominator))
    pre = []
    for p, r in (prefixes or {}).items():
        pre.append('  %s |-> %s' % (p, tla_pack(r["mag"], magkey)))
    text = "---- MODULE %s ----\n(* generated from the working tree of /repo by engine/unitcat.py *)\nEXTENDS Integers, Sequences\nCatDef == [\n%s ]\nCatIds == {%s}\n" % (
        module, ",\n".join(rows), ", ".join('"%s"' % i for i in ids))
    if pre:
        text += "PrefixDef == [\n%s ]\n" % ",\n".join(pre)
        # prefix symbol = label of Prefix<Meters> minus the trailing "m"
        text += "PrefixSymDef == [\n%s ]\n" % ",\n".join('  %s |-> "%s"' % (p_, tla_str(r["label"][:-1])) for p_, r in (prefixes or {}).items())
    # own labels of the named units ("" = the unit defines no label of its own); an input, like the definitions
    text += "LabelDef == [\n%s ]\n" % ",\n".join('  %s |-> "%s"' % (i, tla_str(cat[i].get("own_label", cat[i]["label"]))) for i in ids)
    text += "====\n"
    return ctx.write(module + ".tla", text)
